package statex

import (
	"context"
	"errors"
	"fmt"
	"strings"
	"sync"
	"testing"

	"github.com/ava-labs/avalanchego/database"
	"github.com/ava-labs/avalanchego/utils/maybe"

	"github.com/ava-labs/hypersdk/keys"
	"github.com/ava-labs/hypersdk/state"
	"github.com/ava-labs/hypersdk/state/tstate"
	"github.com/ava-labs/hypersdk/zzverif/kit"
)

// ---- reference model: a plain map with snapshots per op index ----

type kv map[string]string // absent = not in map

func (m kv) clone() kv {
	n := make(kv, len(m))
	for k, v := range m {
		n[k] = v
	}
	return n
}

func (m kv) String() string {
	var parts []string
	for _, k := range c04Keys {
		if v, ok := m[k]; ok {
			parts = append(parts, fmt.Sprintf("%s=%s", c04Name[k], v))
		}
	}
	return "{" + strings.Join(parts, ",") + "}"
}

var (
	c04Keys []string
	c04Name = map[string]string{}
	c04Vals = []string{"A", "B", "C", ""} // the empty value is a present value
)

func init() {
	for i := 0; i < 3; i++ {
		k := string(keys.EncodeChunks([]byte{byte('a' + i)}, 1))
		c04Keys = append(c04Keys, k)
		c04Name[k] = string(rune('a' + i))
	}
}

// c04Op is one step of a view history.
type c04Op struct {
	Kind string `json:"op"` // put | del | rb | get | commit (commit = Commit in the middle of a view that keeps being used)
	Key  int    `json:"key,omitempty"`
	Val  string `json:"val,omitempty"`
	CP   int    `json:"cp,omitempty"`
	// Fault > 0: during this op the parent state.Immutable fails its Fault-th GetValue call
	// (c04FaultAll = every call) with a transient error that is not database.ErrNotFound.
	Fault int `json:"fault,omitempty"`
}

const c04FaultAll = 9

func (o c04Op) String() string {
	var s string
	switch o.Kind {
	case "put":
		s = fmt.Sprintf("put(%c,%s)", 'a'+o.Key, o.Val)
	case "del":
		s = fmt.Sprintf("del(%c)", 'a'+o.Key)
	case "get":
		s = fmt.Sprintf("get(%c)", 'a'+o.Key)
	case "commit":
		return "commit"
	default:
		return fmt.Sprintf("rollback(%d)", o.CP)
	}
	if o.Fault > 0 {
		s += fmt.Sprintf("!%d", o.Fault)
	}
	return s
}

type c04Case struct {
	Base    map[string]string `json:"base"`    // key name -> value
	Pending map[string]string `json:"pending"` // key name -> value or "<deleted>"
	Views   [][]c04Op         `json:"views"`   // each view runs its ops then commits (unless discarded)
	// Scopes[i] != nil: view i is created with these per-key permissions (state.Permissions
	// values; missing key = None) instead of state.CompletePermissions.
	Scopes []map[string]int `json:"scopes,omitempty"`
	// Discard[i]: view i is dropped without a final Commit.
	Discard []bool `json:"discard,omitempty"`
}

// c04Parent is the parent state.Immutable of every view: a plain map that can be armed to
// fail chosen GetValue calls.
type c04Parent struct {
	m     map[string][]byte
	arm   int
	calls int
	fired int
}

var errC04Fault = errors.New("c04: injected transient parent-state fault")

func (p *c04Parent) GetValue(_ context.Context, key []byte) ([]byte, error) {
	p.calls++
	if p.arm == c04FaultAll || (p.arm > 0 && p.calls == p.arm) {
		p.fired++
		return nil, errC04Fault
	}
	if v, ok := p.m[string(key)]; ok {
		return v, nil
	}
	return nil, database.ErrNotFound
}

func (p *c04Parent) set(n int) { p.arm, p.calls, p.fired = n, 0, 0 }

// c04When is a lazily formatted position in a history (only rendered for a violation).
type c04When func() string

func (w c04When) String() string { return w() }

// c04Stats reports what a case exercised (for counters / non-triviality).
type c04Stats struct {
	faultFailedOps int // ops that returned the injected parent error
	faultsFired    int
	permRefused    int // ops refused with ErrInvalidKeyOrPermission on a restricted view
	midCommits     int // Commit followed by further use of the same view
	postCommitOps  int // ops run on a view after one of its own commits
	crossRollbacks int // rollbacks to a checkpoint taken before the view's latest commit
	discarded      int
	blockChecks    int
}

// runC04 drives the real tstate with the case and the model side by side and
// returns a description of the first disagreement ("" = agreed).
func runC04(c c04Case) (string, string, c04Stats) {
	var st c04Stats
	ctx := context.Background()
	base := kv{}
	bs := &c04Parent{m: map[string][]byte{}}
	for i, k := range c04Keys {
		if v, ok := c.Base[string(rune('a'+i))]; ok {
			base[k] = v
			bs.m[k] = []byte(v)
		}
	}
	ts := tstate.New(4)
	under := base.clone()      // values visible at block level (parent overlaid with the published diff)
	blk := map[string]string{} // model of the published diff: key -> "S<value>" | "N" (deleted)
	if len(c.Pending) > 0 {
		pre := ts.NewView(state.CompletePermissions, bs, 4)
		for i, k := range c04Keys {
			v, ok := c.Pending[string(rune('a'+i))]
			if !ok {
				continue
			}
			if v == "<deleted>" {
				if err := pre.Remove(ctx, []byte(k)); err != nil {
					return "setup", "setup remove: " + err.Error(), st
				}
				delete(under, k)
			} else {
				if err := pre.Insert(ctx, []byte(k), []byte(v)); err != nil {
					return "setup", "setup insert: " + err.Error(), st
				}
				under[k] = v
			}
			if vs(under, k) != vs(base, k) {
				blk[k] = vs(under, k)
			}
		}
		pre.Commit()
	}
	// check compares every key readable through the view with the model
	check := func(view *tstate.TStateView, perms map[string]state.Permissions, model kv, when fmt.Stringer) (string, string) {
		for _, k := range c04Keys {
			if perms != nil && !perms[k].Has(state.Read) {
				continue
			}
			got, err := view.GetValue(ctx, []byte(k))
			want, ok := model[k]
			if ok && (err != nil || string(got) != want) {
				return "read-mismatch", fmt.Sprintf("%s: read %s got (%q,%v) want %q", when, c04Name[k], got, err, want)
			}
			if !ok && !errors.Is(err, database.ErrNotFound) {
				return "read-mismatch", fmt.Sprintf("%s: read %s got (%q,%v) want absent", when, c04Name[k], got, err)
			}
		}
		return "", ""
	}
	// checkBlock: the block-level state (ChangedKeys, PendingChanges and - with probe - the reads of a
	// fresh view) must be exactly what the model says was published by the commits so far.
	checkBlock := func(when fmt.Stringer, probe bool, diffKey, readKey string) (string, string) {
		st.blockChecks++
		cur := ts.ChangedKeys()
		bad := len(cur) != len(blk) || ts.PendingChanges() != len(blk)
		for k, want := range blk {
			if v, ok := cur[k]; !ok || mstr(v) != want {
				bad = true
			}
		}
		if bad {
			got := map[string]string{}
			for k, v := range cur {
				n, ok := c04Name[k]
				if !ok {
					n = fmt.Sprintf("%x", k)
				}
				got[n] = mstr(v)
			}
			want := map[string]string{}
			for k, v := range blk {
				want[c04Name[k]] = v
			}
			return diffKey, fmt.Sprintf("%s: block-level diff is %v (PendingChanges()=%d) but the commits so far published %v", when, got, ts.PendingChanges(), want)
		}
		if probe {
			pv := ts.NewView(state.CompletePermissions, bs, 4)
			if _, d := check(pv, nil, under, c04When(func() string { return when.String() + " (fresh view)" })); d != "" {
				return readKey, d
			}
		}
		return "", ""
	}
	if key, d := checkBlock(c04When(func() string { return "after setup" }), true, "setup-diff", "setup-read-mismatch"); d != "" {
		return key, d, st
	}
	for vi, ops := range c.Views {
		var scope state.Scope = state.CompletePermissions
		var perms map[string]state.Permissions
		if vi < len(c.Scopes) && c.Scopes[vi] != nil {
			perms = map[string]state.Permissions{}
			sk := state.Keys{}
			for i, k := range c04Keys {
				p := state.Permissions(c.Scopes[vi][string(rune('a'+i))])
				perms[k] = p
				if p != state.None {
					sk[k] = p
				}
			}
			scope = sk
		}
		view := ts.NewView(scope, bs, 4)
		model := under.clone()
		snaps := map[int]kv{0: model.clone()}
		commits := 0    // commits of this view so far
		commitIdx := -1 // OpIndex() at the latest of them
		// crossed: the view was rolled back to a checkpoint taken before its latest commit. What it shows
		// from then on is the view's uncommitted changes at the checkpoint over a block state that has
		// moved on; the statement does not define that, so the view's own reads are no longer judged and
		// it is never committed again. The block-level state is still judged after each of its ops.
		crossed := false
		if key, d := check(view, perms, model, c04When(func() string { return fmt.Sprintf("view %d start", vi) })); d != "" {
			return key, d, st
		}
		// commit: exactly the keys whose visible value differs from the underlying state
		doCommit := func(when fmt.Stringer) (string, string) {
			before := map[string]string{}
			for k, v := range ts.ChangedKeys() {
				before[k] = mstr(v)
			}
			wantDiff := 0
			for _, k := range c04Keys {
				if vs(model, k) != vs(under, k) {
					wantDiff++
				}
			}
			// (after an earlier commit of the same view its pending map may still hold the entries already published)
			if got := view.PendingChanges(); commits == 0 && got != wantDiff {
				return "pending-count", fmt.Sprintf("%s: PendingChanges()=%d but %d keys differ from the underlying state (model %s, under %s)", when, got, wantDiff, model, under)
			}
			view.Commit()
			after := ts.ChangedKeys()
			for k := range after {
				if _, ok := c04Name[k]; !ok {
					return "commit-foreign-key", fmt.Sprintf("%s: commit published unknown key %x", when, k)
				}
			}
			for _, k := range c04Keys {
				differs := vs(model, k) != vs(under, k)
				cur, has := after[k]
				prevS, had := before[k]
				if differs {
					if !has || mstr(cur) != vs(model, k) {
						return "commit-missing", fmt.Sprintf("%s: key %s visible %s underlying %s but commit published %v", when, c04Name[k], vs(model, k), vs(under, k), pub(cur, has))
					}
					blk[k] = vs(model, k)
				} else {
					if has != had || (has && mstr(cur) != prevS) {
						return "commit-extra", fmt.Sprintf("%s: key %s unchanged (%s) but commit changed block entry %v -> %v", when, c04Name[k], vs(model, k), pub2(prevS, had), pub(cur, has))
					}
				}
			}
			under = model.clone()
			commits++
			commitIdx = view.OpIndex()
			// the whole published diff is the model's, and a fresh view must read the committed values
			return checkBlock(c04When(func() string { return "fresh view after " + when.String() }), true, "commit-diff", "post-read-mismatch")
		}
		for si, o := range ops {
			when := c04When(func() string { return fmt.Sprintf("view %d after step %d %s", vi, si, o) })
			if commits > 0 && o.Kind != "commit" {
				st.postCommitOps++
			}
			switch o.Kind {
			case "put", "del", "get":
				k := c04Keys[o.Key]
				idxBefore := view.OpIndex()
				var (
					err error
					got []byte
				)
				bs.set(o.Fault)
				switch o.Kind {
				case "put":
					err = view.Insert(ctx, []byte(k), []byte(o.Val))
				case "del":
					err = view.Remove(ctx, []byte(k))
				default:
					got, err = view.GetValue(ctx, []byte(k))
				}
				fired := bs.fired
				bs.set(0)
				st.faultsFired += fired
				if crossed {
					break
				}
				failed := false
				if err != nil && !(o.Kind == "get" && errors.Is(err, database.ErrNotFound)) {
					switch {
					case fired > 0 && errors.Is(err, errC04Fault):
						st.faultFailedOps++
					case perms != nil && perms[k] != state.All && errors.Is(err, tstate.ErrInvalidKeyOrPermission):
						st.permRefused++
					default:
						return "op-error", fmt.Sprintf("%s: unexpected error %v", when, err), st
					}
					failed = true
				}
				switch {
				case failed:
					// an operation that reported failure wrote nothing: same checkpoint index, and (below)
					// the same visible values and later the same published diff as if it had not been issued
					if view.OpIndex() != idxBefore {
						return "failed-op-effect", fmt.Sprintf("%s: the op returned %q but OpIndex() moved %d -> %d", when, err, idxBefore, view.OpIndex()), st
					}
				case o.Kind == "put":
					model[k] = o.Val
				case o.Kind == "del":
					delete(model, k)
				default:
					want, ok := model[k]
					if ok != (err == nil) || (ok && string(got) != want) {
						return "read-mismatch", fmt.Sprintf("%s: got (%q,%v) want %s", when, got, err, vs(model, k)), st
					}
				}
			case "commit":
				if crossed {
					continue
				}
				if key, d := doCommit(c04When(func() string { return fmt.Sprintf("mid-view commit of view %d (step %d)", vi, si) })); d != "" {
					return key, d, st
				}
				if si < len(ops)-1 {
					st.midCommits++
				}
			case "rb":
				if o.CP > view.OpIndex() {
					continue
				}
				if o.CP < commitIdx {
					if !crossed {
						st.crossRollbacks++
					}
					crossed = true
				}
				snap, ok := snaps[o.CP]
				if !ok && !crossed {
					return "harness", when.String() + ": no snapshot for checkpoint", st
				}
				view.Rollback(ctx, o.CP)
				if view.OpIndex() != o.CP {
					return "rollback-opindex", fmt.Sprintf("%s: OpIndex()=%d after Rollback(%d)", when, view.OpIndex(), o.CP), st
				}
				if !crossed {
					model = snap.clone()
					for cp := range snaps {
						if cp > o.CP {
							delete(snaps, cp)
						}
					}
				}
			}
			if !crossed {
				// the state visible when OpIndex() returns n is the snapshot for checkpoint n
				if prev, ok := snaps[view.OpIndex()]; ok && o.Kind != "rb" {
					// an op that did not advance the index must not have changed anything
					if prev.String() != model.String() {
						return "silent-op", fmt.Sprintf("%s: visible state changed (%s -> %s) without OpIndex advancing", when, prev, model), st
					}
				}
				snaps[view.OpIndex()] = model.clone()
				if key, d := check(view, perms, model, when); d != "" {
					return key, d, st
				}
			}
			// nothing a view does between its commits may reach the block-level state
			if o.Kind != "commit" {
				if key, d := checkBlock(when, commits > 0, "uncommitted-leak", "uncommitted-leak"); d != "" {
					return key, d, st
				}
			}
		}
		if crossed || (vi < len(c.Discard) && c.Discard[vi]) {
			st.discarded++
			if key, d := checkBlock(c04When(func() string { return fmt.Sprintf("view %d dropped without commit", vi) }), true, "uncommitted-leak", "uncommitted-leak"); d != "" {
				return key, d, st
			}
			continue
		}
		if key, d := doCommit(c04When(func() string { return fmt.Sprintf("view %d", vi) })); d != "" {
			return key, d, st
		}
	}
	return "", "", st
}

func c04PostCommitOrFault(ops []c04Op) bool {
	for i, o := range ops {
		if o.Fault > 0 || (o.Kind == "commit" && i < len(ops)-1) {
			return true
		}
	}
	return false
}

func vs(m kv, k string) string {
	if v, ok := m[k]; ok {
		return "S" + v
	}
	return "N"
}

func mstr(v maybe.Maybe[[]byte]) string {
	if v.HasValue() {
		return "S" + string(v.Value())
	}
	return "N"
}

func pub(v maybe.Maybe[[]byte], has bool) string {
	if !has {
		return "<none>"
	}
	return mstr(v)
}

func pub2(s string, has bool) string {
	if !has {
		return "<none>"
	}
	return s
}

func c04Shape(c c04Case) string {
	var b strings.Builder
	fmt.Fprintf(&b, "%v|%v|", c.Base, c.Pending)
	for i, v := range c.Views {
		if i < len(c.Scopes) && c.Scopes[i] != nil {
			fmt.Fprintf(&b, "%v", c.Scopes[i])
		}
		for _, o := range v {
			b.WriteString(o.String())
		}
		if i < len(c.Discard) && c.Discard[i] {
			b.WriteString("<drop>")
		}
		b.WriteByte(';')
	}
	return b.String()
}

// nontrivial: the case re-creates a deleted key or deletes a (re-)created key or rolls back, keeps
// using a view after a Commit of it, or has an op that failed (injected parent fault / permission).
func c04Nontrivial(c c04Case, st c04Stats) bool {
	if st.faultFailedOps > 0 || st.permRefused > 0 || st.postCommitOps > 0 {
		return true
	}
	for _, v := range c.Views {
		seenDel := map[int]bool{}
		seenPut := map[int]bool{}
		for _, o := range v {
			switch o.Kind {
			case "del":
				if seenPut[o.Key] {
					return true
				}
				seenDel[o.Key] = true
			case "put":
				if seenDel[o.Key] {
					return true
				}
				seenPut[o.Key] = true
			case "rb":
				return true
			}
		}
	}
	return false
}

func TestC04(t *testing.T) {
	r := kit.Start(t, "C04", "exploration")
	r.Rule("cases = (parent-state values, block-level pending changes, 1..3 consecutive views over one TState, each a sequence of put/del/get/rollback-to-earlier-op-index/commit, finally committed or dropped). Compared with a plain map + per-op-index snapshot model of the view and a map model of the published block diff: every read of every key after every step, OpIndex after rollback, PendingChanges, the exact set (keys, values, deletes) published by each Commit, and - after EVERY op, also on a view that keeps being used after its own Commit - that ChangedKeys()/PendingChanges() of the TState and the reads of a fresh view still equal what was published at the last Commit (nothing uncommitted leaks, a rollback never un-publishes). Ops may run while the parent state.Immutable fails its 1st/2nd/every GetValue with a non-not-found error, and on views with restricted per-key permissions: an op that returns an error must leave OpIndex, every visible value and the later published diff as if it had not been issued. Phases: (1) all single-key put/del/rollback histories up to length L over every base/pending setup; (1b) all single-key histories up to length L2 over put/del/commit/faulted put,del,get/rollback that continue after a commit or contain a faulted op; (1c) all triples of 1..2-op views over one key (first committer into an empty TState vs later ones); (2) random multi-key multi-view put/del/rollback histories; (3) random histories with mid-view commits, dropped views, faults and restricted scopes; (4) concurrent commits. A case is non-trivial when a view re-creates a deleted key, deletes a key it wrote, rolls back, is used after its own Commit, or has an op that failed; distinct = distinct (setup, scopes, op sequence).")
	r.Assume("tstate is driven single-threaded per view as chain/transaction.go does", "values are single-chunk; chunk accounting is judged by C40/C12",
		"after a view is rolled back to a checkpoint taken BEFORE its own latest Commit the statement does not say what the view shows (the block state under it has moved on); from then on only the block-level state is judged and that view is dropped without a further Commit",
		"whether an op on a restricted view should be refused is C03's concern; here a refusal (ErrInvalidKeyOrPermission on a key without full permission) is only required to be a no-op, and keys the view may not read are not read through it",
		"PendingChanges() of a view is only compared at the view's first Commit (afterwards it may still count entries already published)")
	var tot c04Stats
	flush := func() {
		r.Count("ops_failed_by_injected_parent_fault", tot.faultFailedOps)
		r.Count("parent_faults_fired", tot.faultsFired)
		r.Count("ops_refused_by_restricted_scope", tot.permRefused)
		r.Count("mid_view_commits", tot.midCommits)
		r.Count("ops_on_view_after_its_commit", tot.postCommitOps)
		r.Count("rollbacks_across_own_commit", tot.crossRollbacks)
		r.Count("views_dropped_without_commit", tot.discarded)
		r.Count("block_level_state_checks", tot.blockChecks)
	}
	judge := func(c c04Case) {
		r.Eval()
		var (
			key, d string
			st     c04Stats
		)
		r.Guard("tstate", c, func() { key, d, st = runC04(c) })
		if d != "" {
			r.Violation("C04/"+key, c, "%s  [case %s]", d, c04Shape(c))
		}
		tot.faultFailedOps += st.faultFailedOps
		tot.faultsFired += st.faultsFired
		tot.permRefused += st.permRefused
		tot.midCommits += st.midCommits
		tot.postCommitOps += st.postCommitOps
		tot.crossRollbacks += st.crossRollbacks
		tot.discarded += st.discarded
		tot.blockChecks += st.blockChecks
		if c04Nontrivial(c, st) {
			r.Distinct(c04Shape(c))
			r.Sample(c)
		}
	}
	if rf := r.Replay(); rf != nil && len(rf.Witness) > 0 {
		var c c04Case
		if err := jsonUnmarshal(rf.Witness, &c); err == nil && len(c.Views) > 0 {
			judge(c)
			flush()
			r.Finish(0)
			return
		}
	}

	// (1) systematic small scope: one key, every setup, every op sequence up to length L
	L := r.N(4, 6)
	setups := []c04Case{}
	for _, b := range []string{"", "A"} {
		for _, p := range []string{"", "<deleted>", "B", "A"} {
			c := c04Case{Base: map[string]string{}, Pending: map[string]string{}}
			if b != "" {
				c.Base["a"] = b
			}
			if p != "" {
				c.Pending["a"] = p
			}
			setups = append(setups, c)
		}
	}
	var rec func(prefix []c04Op, opIndexUpper int)
	exhaustive := 0
	rec = func(prefix []c04Op, upper int) {
		if len(prefix) > 0 {
			for _, s := range setups {
				c := s
				c.Views = [][]c04Op{append([]c04Op(nil), prefix...)}
				judge(c)
				exhaustive++
			}
		}
		if len(prefix) == L {
			return
		}
		for _, v := range c04Vals {
			rec(append(prefix, c04Op{Kind: "put", Val: v}), upper+1)
		}
		rec(append(prefix, c04Op{Kind: "del"}), upper+1)
		for cp := 0; cp < upper; cp++ { // rollbacks beyond the live op index are skipped by the driver
			rec(append(prefix, c04Op{Kind: "rb", CP: cp}), cp)
		}
	}
	rec(nil, 0)
	r.Count("exhaustive_single_key_cases", exhaustive)
	r.Extra("exhaustive_single_key_max_len", L)

	// (1b) systematic small scope, one key, every setup: histories that keep using the view after a
	// Commit of it and/or contain ops during which the parent state fails its 1st / 2nd / every read
	L2 := r.N(3, 4)
	alphabet := []c04Op{
		{Kind: "put", Val: "A"}, {Kind: "put", Val: "B"}, {Kind: "del"}, {Kind: "commit"},
		{Kind: "put", Val: "B", Fault: 1}, {Kind: "put", Val: "B", Fault: 2},
		{Kind: "del", Fault: 1}, {Kind: "del", Fault: 2}, {Kind: "get", Fault: 1},
	}
	exhaustive = 0
	var rec2 func(prefix []c04Op, upper int)
	rec2 = func(prefix []c04Op, upper int) {
		// judged: histories where something follows a commit, or an op runs against a failing parent
		if c04PostCommitOrFault(prefix) {
			for _, s := range setups {
				c := s
				c.Views = [][]c04Op{append([]c04Op(nil), prefix...)}
				judge(c)
				exhaustive++
			}
		}
		if len(prefix) == L2 {
			return
		}
		for _, o := range alphabet {
			rec2(append(prefix, o), upper+1)
		}
		for cp := 0; cp < upper; cp++ {
			rec2(append(prefix, c04Op{Kind: "rb", CP: cp}), cp)
		}
	}
	rec2(nil, 0)
	r.Count("exhaustive_post_commit_and_fault_cases", exhaustive)
	r.Extra("exhaustive_post_commit_and_fault_max_len", L2)

	// (1c) systematic small scope, one key present or absent in the parent, three consecutive views
	// of 1..2 ops each over one TState (first committer into an empty block state vs later ones)
	exhaustive = 0
	var shortViews [][]c04Op
	single := []c04Op{{Kind: "put", Val: "A"}, {Kind: "put", Val: "B"}, {Kind: "del"}}
	for _, a := range single {
		shortViews = append(shortViews, []c04Op{a})
		for _, b := range single {
			shortViews = append(shortViews, []c04Op{a, b})
		}
	}
	for _, b := range []string{"", "A"} {
		for _, v1 := range shortViews {
			for _, v2 := range shortViews {
				for _, v3 := range shortViews {
					c := c04Case{Base: map[string]string{}, Pending: map[string]string{}, Views: [][]c04Op{v1, v2, v3}}
					if b != "" {
						c.Base["a"] = b
					}
					judge(c)
					exhaustive++
				}
			}
		}
	}
	r.Count("exhaustive_three_view_cases", exhaustive)

	// (2) random multi-key, multi-view histories
	rng := r.Rand("random")
	n := r.N(60000, 500000)
	for i := 0; i < n && r.Violations() < 20; i++ {
		c := c04Case{Base: map[string]string{}, Pending: map[string]string{}}
		for j := range c04Keys {
			name := string(rune('a' + j))
			if rng.IntN(2) == 0 {
				c.Base[name] = c04Vals[rng.IntN(len(c04Vals))]
			}
			switch rng.IntN(4) {
			case 0:
				c.Pending[name] = c04Vals[rng.IntN(len(c04Vals))]
			case 1:
				c.Pending[name] = "<deleted>"
			}
		}
		nv := 1 + rng.IntN(3)
		for v := 0; v < nv; v++ {
			var ops []c04Op
			ln := 1 + rng.IntN(12)
			if rng.IntN(10) == 0 {
				ln = 1 + rng.IntN(40)
			}
			nkeys := 1 + rng.IntN(3)
			for s := 0; s < ln; s++ {
				switch x := rng.IntN(10); {
				case x < 4:
					ops = append(ops, c04Op{Kind: "put", Key: rng.IntN(nkeys), Val: c04Vals[rng.IntN(len(c04Vals))]})
				case x < 8:
					ops = append(ops, c04Op{Kind: "del", Key: rng.IntN(nkeys)})
				default:
					ops = append(ops, c04Op{Kind: "rb", CP: rng.IntN(s + 1)})
				}
			}
			c.Views = append(c.Views, ops)
		}
		judge(c)
	}
	// (3) random multi-key, multi-view histories with mid-view commits, views dropped without commit,
	// parent-state faults during ops and views with restricted per-key permissions
	rng = r.Rand("random-ext")
	n = r.N(25000, 350000)
	permChoices := []state.Permissions{state.All, state.All, state.Write, state.Allocate, state.Read, state.None}
	for i := 0; i < n && r.Violations() < 20; i++ {
		c := c04Case{Base: map[string]string{}, Pending: map[string]string{}}
		withPending := rng.IntN(2) == 0 // else the first committing view commits into an empty block state
		for j := range c04Keys {
			name := string(rune('a' + j))
			if rng.IntN(2) == 0 {
				c.Base[name] = c04Vals[rng.IntN(len(c04Vals))]
			}
			if !withPending {
				continue
			}
			switch rng.IntN(4) {
			case 0:
				c.Pending[name] = c04Vals[rng.IntN(len(c04Vals))]
			case 1:
				c.Pending[name] = "<deleted>"
			}
		}
		nv := 1 + rng.IntN(3)
		c.Scopes = make([]map[string]int, nv)
		c.Discard = make([]bool, nv)
		faulty := rng.IntN(2) == 0
		for v := 0; v < nv; v++ {
			if rng.IntN(5) == 0 {
				c.Scopes[v] = map[string]int{}
				for j := range c04Keys {
					c.Scopes[v][string(rune('a'+j))] = int(permChoices[rng.IntN(len(permChoices))])
				}
			}
			c.Discard[v] = rng.IntN(6) == 0
			var ops []c04Op
			ln := 2 + rng.IntN(12)
			nkeys := 1 + rng.IntN(3)
			for s := 0; s < ln; s++ {
				var o c04Op
				switch x := rng.IntN(20); {
				case x < 7:
					o = c04Op{Kind: "put", Key: rng.IntN(nkeys), Val: c04Vals[rng.IntN(len(c04Vals))]}
				case x < 13:
					o = c04Op{Kind: "del", Key: rng.IntN(nkeys)}
				case x < 15:
					o = c04Op{Kind: "get", Key: rng.IntN(nkeys)}
				case x < 18:
					o = c04Op{Kind: "rb", CP: rng.IntN(s + 1)}
				default:
					o = c04Op{Kind: "commit"}
				}
				if faulty && o.Kind != "rb" && o.Kind != "commit" && rng.IntN(3) == 0 {
					o.Fault = []int{1, 1, 2, 2, c04FaultAll}[rng.IntN(5)]
				}
				ops = append(ops, o)
			}
			c.Views = append(c.Views, ops)
		}
		judge(c)
	}
	c04ConcurrentCommits(r)
	flush()
	r.Finish(1000)
}

// c04ConcurrentCommits: views of one block-level TState are committed from different goroutines
// (the executor commits non-conflicting transactions in parallel) while others read through it;
// afterwards the block-level state must hold exactly what the views published.
func c04ConcurrentCommits(r *kit.Run) {
	ctx := context.Background()
	rounds := r.N(150, 3000)
	for round := 0; round < rounds; round++ {
		ts := tstate.New(16)
		bs := state.ImmutableStorage{}
		const G, K = 8, 6
		var wg sync.WaitGroup
		for g := 0; g < G; g++ {
			wg.Add(1)
			go func(g int) {
				defer wg.Done()
				for k := 0; k < K; k++ {
					v := ts.NewView(state.CompletePermissions, bs, 4)
					key := keys.EncodeChunks([]byte{0x40, byte(g), byte(k)}, 1)
					_ = v.Insert(ctx, key, []byte{byte(g), byte(k), byte(round)})
					// read a key another goroutine may be publishing right now (block-level fallback)
					_, _ = v.GetValue(ctx, keys.EncodeChunks([]byte{0x40, byte((g + 1) % G), byte(k)}, 1))
					v.Commit()
				}
			}(g)
		}
		wg.Wait()
		r.Eval()
		changed := ts.ChangedKeys()
		if len(changed) != G*K || ts.OpIndex() != G*K {
			r.Violation("C04/concurrent-commits-lost", map[string]int{"published": len(changed), "ops": ts.OpIndex(), "expected": G * K},
				"%d views committed one new key each from %d goroutines, the block-level state holds %d keys and %d ops", G*K, G, len(changed), ts.OpIndex())
			return
		}
		for g := 0; g < G; g++ {
			for k := 0; k < K; k++ {
				key := string(keys.EncodeChunks([]byte{0x40, byte(g), byte(k)}, 1))
				if v, ok := changed[key]; !ok || !v.HasValue() || len(v.Value()) != 3 || v.Value()[0] != byte(g) || v.Value()[1] != byte(k) {
					r.Violation("C04/concurrent-commits-lost", map[string]int{"g": g, "k": k}, "key of goroutine %d/%d missing or wrong after concurrent commits", g, k)
					return
				}
			}
		}
		r.Count("concurrent_commit_rounds", 1)
	}
}
