package statex

import (
	"context"
	"errors"
	"fmt"
	"strings"
	"sync"
	"testing"

	"github.com/ava-labs/avalanchego/database"
	"github.com/ava-labs/avalanchego/utils/maybe"

	"github.com/ava-labs/hypersdk/keys"
	"github.com/ava-labs/hypersdk/state"
	"github.com/ava-labs/hypersdk/state/tstate"
	"github.com/ava-labs/hypersdk/zzverif/kit"
)

// ---- reference model: a plain map with snapshots per op index ----

type kv map[string]string // absent = not in map

func (m kv) clone() kv {
	n := make(kv, len(m))
	for k, v := range m {
		n[k] = v
	}
	return n
}

func (m kv) String() string {
	var parts []string
	for _, k := range c04Keys {
		if v, ok := m[k]; ok {
			parts = append(parts, fmt.Sprintf("%s=%s", c04Name[k], v))
		}
	}
	return "{" + strings.Join(parts, ",") + "}"
}

var (
	c04Keys []string
	c04Name = map[string]string{}
	c04Vals = []string{"A", "B", "C", ""} // the empty value is a present value
)

func init() {
	for i := 0; i < 3; i++ {
		k := string(keys.EncodeChunks([]byte{byte('a' + i)}, 1))
		c04Keys = append(c04Keys, k)
		c04Name[k] = string(rune('a' + i))
	}
}

// c04Op is one step of a view history.
type c04Op struct {
	Kind string `json:"op"` // put | del | rb
	Key  int    `json:"key,omitempty"`
	Val  string `json:"val,omitempty"`
	CP   int    `json:"cp,omitempty"`
}

func (o c04Op) String() string {
	switch o.Kind {
	case "put":
		return fmt.Sprintf("put(%c,%s)", 'a'+o.Key, o.Val)
	case "del":
		return fmt.Sprintf("del(%c)", 'a'+o.Key)
	default:
		return fmt.Sprintf("rollback(%d)", o.CP)
	}
}

type c04Case struct {
	Base    map[string]string `json:"base"`    // key name -> value
	Pending map[string]string `json:"pending"` // key name -> value or "<deleted>"
	Views   [][]c04Op         `json:"views"`   // each view runs its ops then commits
}

// runC04 drives the real tstate with the case and the model side by side and
// returns a description of the first disagreement ("" = agreed).
func runC04(c c04Case) (string, string) {
	ctx := context.Background()
	base := kv{}
	bs := state.ImmutableStorage{}
	for i, k := range c04Keys {
		if v, ok := c.Base[string(rune('a'+i))]; ok {
			base[k] = v
			bs[k] = []byte(v)
		}
	}
	ts := tstate.New(4)
	under := base.clone()
	if len(c.Pending) > 0 {
		pre := ts.NewView(state.CompletePermissions, bs, 4)
		for i, k := range c04Keys {
			v, ok := c.Pending[string(rune('a'+i))]
			if !ok {
				continue
			}
			if v == "<deleted>" {
				if err := pre.Remove(ctx, []byte(k)); err != nil {
					return "setup", "setup remove: " + err.Error()
				}
				delete(under, k)
			} else {
				if err := pre.Insert(ctx, []byte(k), []byte(v)); err != nil {
					return "setup", "setup insert: " + err.Error()
				}
				under[k] = v
			}
		}
		pre.Commit()
	}
	check := func(view *tstate.TStateView, model kv, when string) (string, string) {
		for _, k := range c04Keys {
			got, err := view.GetValue(ctx, []byte(k))
			want, ok := model[k]
			if ok && (err != nil || string(got) != want) {
				return "read-mismatch", fmt.Sprintf("%s: read %s got (%q,%v) want %q", when, c04Name[k], got, err, want)
			}
			if !ok && !errors.Is(err, database.ErrNotFound) {
				return "read-mismatch", fmt.Sprintf("%s: read %s got (%q,%v) want absent", when, c04Name[k], got, err)
			}
		}
		return "", ""
	}
	for vi, ops := range c.Views {
		view := ts.NewView(state.CompletePermissions, bs, 4)
		model := under.clone()
		snaps := map[int]kv{0: model.clone()}
		if key, d := check(view, model, fmt.Sprintf("view %d start", vi)); d != "" {
			return key, d
		}
		for si, o := range ops {
			when := fmt.Sprintf("view %d after step %d %s", vi, si, o)
			switch o.Kind {
			case "put":
				k := c04Keys[o.Key]
				if err := view.Insert(ctx, []byte(k), []byte(o.Val)); err != nil {
					return "op-error", when + ": insert error " + err.Error()
				}
				model[k] = o.Val
			case "del":
				k := c04Keys[o.Key]
				if err := view.Remove(ctx, []byte(k)); err != nil {
					return "op-error", when + ": remove error " + err.Error()
				}
				delete(model, k)
			case "rb":
				if o.CP > view.OpIndex() {
					continue
				}
				snap, ok := snaps[o.CP]
				if !ok {
					return "harness", when + ": no snapshot for checkpoint"
				}
				view.Rollback(ctx, o.CP)
				model = snap.clone()
				for cp := range snaps {
					if cp > o.CP {
						delete(snaps, cp)
					}
				}
				if view.OpIndex() != o.CP {
					return "rollback-opindex", fmt.Sprintf("%s: OpIndex()=%d after Rollback(%d)", when, view.OpIndex(), o.CP)
				}
			}
			// the state visible when OpIndex() returns n is the snapshot for checkpoint n
			if prev, ok := snaps[view.OpIndex()]; ok && o.Kind != "rb" {
				// an op that did not advance the index must not have changed anything
				if prev.String() != model.String() {
					return "silent-op", fmt.Sprintf("%s: visible state changed (%s -> %s) without OpIndex advancing", when, prev, model)
				}
			}
			snaps[view.OpIndex()] = model.clone()
			if key, d := check(view, model, when); d != "" {
				return key, d
			}
		}
		// commit: exactly the keys whose visible value differs from the underlying state
		before := map[string]string{}
		for k, v := range ts.ChangedKeys() {
			before[k] = mstr(v)
		}
		wantDiff := 0
		for _, k := range c04Keys {
			if vs(model, k) != vs(under, k) {
				wantDiff++
			}
		}
		if got := view.PendingChanges(); got != wantDiff {
			return "pending-count", fmt.Sprintf("view %d: PendingChanges()=%d but %d keys differ from the underlying state (model %s, under %s)", vi, got, wantDiff, model, under)
		}
		view.Commit()
		after := ts.ChangedKeys()
		for k := range after {
			if _, ok := c04Name[k]; !ok {
				return "commit-foreign-key", fmt.Sprintf("view %d: commit published unknown key %x", vi, k)
			}
		}
		for _, k := range c04Keys {
			differs := vs(model, k) != vs(under, k)
			cur, has := after[k]
			prevS, had := before[k]
			if differs {
				if !has || mstr(cur) != vs(model, k) {
					return "commit-missing", fmt.Sprintf("view %d: key %s visible %s underlying %s but commit published %v", vi, c04Name[k], vs(model, k), vs(under, k), pub(cur, has))
				}
			} else {
				if has != had || (has && mstr(cur) != prevS) {
					return "commit-extra", fmt.Sprintf("view %d: key %s unchanged (%s) but commit changed block entry %v -> %v", vi, c04Name[k], vs(model, k), pub2(prevS, had), pub(cur, has))
				}
			}
		}
		under = model
		// a fresh view must read the committed values
		probe := ts.NewView(state.CompletePermissions, bs, 4)
		if key, d := check(probe, under, fmt.Sprintf("fresh view after commit of view %d", vi)); d != "" {
			return "post-" + key, d
		}
	}
	return "", ""
}

func vs(m kv, k string) string {
	if v, ok := m[k]; ok {
		return "S" + v
	}
	return "N"
}

func mstr(v maybe.Maybe[[]byte]) string {
	if v.HasValue() {
		return "S" + string(v.Value())
	}
	return "N"
}

func pub(v maybe.Maybe[[]byte], has bool) string {
	if !has {
		return "<none>"
	}
	return mstr(v)
}

func pub2(s string, has bool) string {
	if !has {
		return "<none>"
	}
	return s
}

func c04Shape(c c04Case) string {
	var b strings.Builder
	fmt.Fprintf(&b, "%v|%v|", c.Base, c.Pending)
	for _, v := range c.Views {
		for _, o := range v {
			b.WriteString(o.String())
		}
		b.WriteByte(';')
	}
	return b.String()
}

// nontrivial: the case re-creates a deleted key or deletes a (re-)created key or rolls back.
func c04Nontrivial(c c04Case) bool {
	for _, v := range c.Views {
		seenDel := map[int]bool{}
		seenPut := map[int]bool{}
		for _, o := range v {
			switch o.Kind {
			case "del":
				if seenPut[o.Key] {
					return true
				}
				seenDel[o.Key] = true
			case "put":
				if seenDel[o.Key] {
					return true
				}
				seenPut[o.Key] = true
			case "rb":
				return true
			}
		}
	}
	return false
}

func TestC04(t *testing.T) {
	r := kit.Start(t, "C04", "exploration")
	r.Rule("cases = (base values, block-level pending changes, 1..3 consecutive views each a sequence of put/del/rollback-to-earlier-op-index, then commit); every read of every key after every step, OpIndex after rollback, PendingChanges and the exact set published by Commit are compared with a plain map + snapshot model. A case is non-trivial when a view re-creates a deleted key, deletes a key it wrote, or rolls back; distinct = distinct (setup, op sequence).")
	r.Assume("tstate is driven single-threaded per view as chain/transaction.go does", "values are single-chunk; chunk accounting is judged by C40/C12")
	judge := func(c c04Case) {
		r.Eval()
		var key, d string
		r.Guard("tstate", c, func() { key, d = runC04(c) })
		if d != "" {
			r.Violation("C04/"+key, c, "%s  [case %s]", d, c04Shape(c))
		}
		if c04Nontrivial(c) {
			r.Distinct(c04Shape(c))
			r.Sample(c)
		}
	}
	if rf := r.Replay(); rf != nil && len(rf.Witness) > 0 {
		var c c04Case
		if err := jsonUnmarshal(rf.Witness, &c); err == nil && len(c.Views) > 0 {
			judge(c)
			r.Finish(0)
			return
		}
	}

	// (1) systematic small scope: one key, every setup, every op sequence up to length L
	L := r.N(4, 6)
	setups := []c04Case{}
	for _, b := range []string{"", "A"} {
		for _, p := range []string{"", "<deleted>", "B", "A"} {
			c := c04Case{Base: map[string]string{}, Pending: map[string]string{}}
			if b != "" {
				c.Base["a"] = b
			}
			if p != "" {
				c.Pending["a"] = p
			}
			setups = append(setups, c)
		}
	}
	var rec func(prefix []c04Op, opIndexUpper int)
	exhaustive := 0
	rec = func(prefix []c04Op, upper int) {
		if len(prefix) > 0 {
			for _, s := range setups {
				c := s
				c.Views = [][]c04Op{append([]c04Op(nil), prefix...)}
				judge(c)
				exhaustive++
			}
		}
		if len(prefix) == L {
			return
		}
		for _, v := range c04Vals {
			rec(append(prefix, c04Op{Kind: "put", Val: v}), upper+1)
		}
		rec(append(prefix, c04Op{Kind: "del"}), upper+1)
		for cp := 0; cp < upper; cp++ { // rollbacks beyond the live op index are skipped by the driver
			rec(append(prefix, c04Op{Kind: "rb", CP: cp}), cp)
		}
	}
	rec(nil, 0)
	r.Count("exhaustive_single_key_cases", exhaustive)
	r.Extra("exhaustive_single_key_max_len", L)

	// (2) random multi-key, multi-view histories
	rng := r.Rand("random")
	n := r.N(60000, 1500000)
	for i := 0; i < n && r.Violations() < 20; i++ {
		c := c04Case{Base: map[string]string{}, Pending: map[string]string{}}
		for j := range c04Keys {
			name := string(rune('a' + j))
			if rng.IntN(2) == 0 {
				c.Base[name] = c04Vals[rng.IntN(len(c04Vals))]
			}
			switch rng.IntN(4) {
			case 0:
				c.Pending[name] = c04Vals[rng.IntN(len(c04Vals))]
			case 1:
				c.Pending[name] = "<deleted>"
			}
		}
		nv := 1 + rng.IntN(3)
		for v := 0; v < nv; v++ {
			var ops []c04Op
			ln := 1 + rng.IntN(12)
			if rng.IntN(10) == 0 {
				ln = 1 + rng.IntN(40)
			}
			nkeys := 1 + rng.IntN(3)
			for s := 0; s < ln; s++ {
				switch x := rng.IntN(10); {
				case x < 4:
					ops = append(ops, c04Op{Kind: "put", Key: rng.IntN(nkeys), Val: c04Vals[rng.IntN(len(c04Vals))]})
				case x < 8:
					ops = append(ops, c04Op{Kind: "del", Key: rng.IntN(nkeys)})
				default:
					ops = append(ops, c04Op{Kind: "rb", CP: rng.IntN(s + 1)})
				}
			}
			c.Views = append(c.Views, ops)
		}
		judge(c)
	}
	c04ConcurrentCommits(r)
	r.Finish(1000)
}

// c04ConcurrentCommits: views of one block-level TState are committed from different goroutines
// (the executor commits non-conflicting transactions in parallel) while others read through it;
// afterwards the block-level state must hold exactly what the views published.
func c04ConcurrentCommits(r *kit.Run) {
	ctx := context.Background()
	rounds := r.N(150, 3000)
	for round := 0; round < rounds; round++ {
		ts := tstate.New(16)
		bs := state.ImmutableStorage{}
		const G, K = 8, 6
		var wg sync.WaitGroup
		for g := 0; g < G; g++ {
			wg.Add(1)
			go func(g int) {
				defer wg.Done()
				for k := 0; k < K; k++ {
					v := ts.NewView(state.CompletePermissions, bs, 4)
					key := keys.EncodeChunks([]byte{0x40, byte(g), byte(k)}, 1)
					_ = v.Insert(ctx, key, []byte{byte(g), byte(k), byte(round)})
					// read a key another goroutine may be publishing right now (block-level fallback)
					_, _ = v.GetValue(ctx, keys.EncodeChunks([]byte{0x40, byte((g + 1) % G), byte(k)}, 1))
					v.Commit()
				}
			}(g)
		}
		wg.Wait()
		r.Eval()
		changed := ts.ChangedKeys()
		if len(changed) != G*K || ts.OpIndex() != G*K {
			r.Violation("C04/concurrent-commits-lost", map[string]int{"published": len(changed), "ops": ts.OpIndex(), "expected": G * K},
				"%d views committed one new key each from %d goroutines, the block-level state holds %d keys and %d ops", G*K, G, len(changed), ts.OpIndex())
			return
		}
		for g := 0; g < G; g++ {
			for k := 0; k < K; k++ {
				key := string(keys.EncodeChunks([]byte{0x40, byte(g), byte(k)}, 1))
				if v, ok := changed[key]; !ok || !v.HasValue() || len(v.Value()) != 3 || v.Value()[0] != byte(g) || v.Value()[1] != byte(k) {
					r.Violation("C04/concurrent-commits-lost", map[string]int{"g": g, "k": k}, "key of goroutine %d/%d missing or wrong after concurrent commits", g, k)
					return
				}
			}
		}
		r.Count("concurrent_commit_rounds", 1)
	}
}
