package statex

import (
	"context"
	"encoding/hex"
	"errors"
	"fmt"
	"math/rand/v2"
	"testing"

	"github.com/ava-labs/avalanchego/database"

	"github.com/ava-labs/hypersdk/chain"
	"github.com/ava-labs/hypersdk/codec"
	"github.com/ava-labs/hypersdk/genesis"
	"github.com/ava-labs/hypersdk/keys"
	"github.com/ava-labs/hypersdk/state"
	"github.com/ava-labs/hypersdk/state/balance"
	"github.com/ava-labs/hypersdk/state/tstate"
	"github.com/ava-labs/hypersdk/zzverif/chainfx"
	"github.com/ava-labs/hypersdk/zzverif/kit"
)

// ---- oracle (from the statement; shares nothing with package keys) ----

const c40MaxChunks = 0xFFFF

// c40Suffix: big-endian number in the last two bytes; ok=false for keys shorter than two bytes.
func c40Suffix(key []byte) (int, bool) {
	if len(key) < 2 {
		return 0, false
	}
	return int(key[len(key)-2])*256 + int(key[len(key)-1]), true
}

// c40Chunks: chunk count of a value of n bytes (hypersdk's definition: 0 for the
// empty value, otherwise n/64+1); ok=false beyond the 16-bit limit.
func c40Chunks(n int) (int, bool) {
	if n == 0 {
		return 0, true
	}
	c := n/64 + 1
	return c, c <= c40MaxChunks
}

// c40Writable: may a value of n bytes be written to key?
func c40Writable(key []byte, n int) bool {
	s, ok := c40Suffix(key)
	if !ok {
		return false
	}
	c, ok := c40Chunks(n)
	return ok && c <= s
}

type c40Case struct {
	Part   string   `json:"part"`
	Key    string   `json:"key_hex"`
	ValLen int      `json:"value_len,omitempty"`
	Max    int      `json:"encode_max,omitempty"`
	Scope  string   `json:"scope,omitempty"`
	Decl   []string `json:"declared_keys_hex,omitempty"`
	Note   string   `json:"note,omitempty"`
}

var c40Buf []byte // shared value buffer, values are prefixes of it

func c40Value(n int) []byte {
	if n == 0 {
		return []byte{}
	}
	return c40Buf[:n:n]
}

// c40ShortSponsorBH declares a too-short sponsor key (the sponsor side of "declared").
type c40ShortSponsorBH struct {
	*balance.PrefixBalanceHandler
	extra string
}

func (b c40ShortSponsorBH) SponsorStateKeys(addr codec.Address) state.Keys {
	ks := b.PrefixBalanceHandler.SponsorStateKeys(addr)
	ks[b.extra] = state.Read | state.Write
	return ks
}

// c40PureKey judges the pure functions of package keys for one key.
func c40PureKey(r *kit.Run, key []byte) {
	c := c40Case{Part: "keys", Key: kit.Hex(key)}
	wantS, wantOK := c40Suffix(key)
	r.Guard("keys", c, func() {
		r.Eval()
		if got, ok := keys.MaxChunks(key); ok != wantOK || (ok && int(got) != wantS) {
			r.Violation("C40/maxchunks-not-suffix", c, "MaxChunks(%x)=(%d,%v), last two bytes big-endian = (%d,%v)", key, got, ok, wantS, wantOK)
		}
		if got, ok := keys.DecodeChunks(key); ok != wantOK || (ok && int(got) != wantS) {
			r.Violation("C40/decodechunks-not-suffix", c, "DecodeChunks(%x)=(%d,%v), last two bytes big-endian = (%d,%v)", key, got, ok, wantS, wantOK)
		}
		if got := keys.Valid(string(key)); got != wantOK {
			r.Violation("C40/short-key-valid", c, "Valid(%x)=%v for a key of %d bytes", key, got, len(key))
		}
		if !wantOK {
			if keys.Verify(1<<20, c40MaxChunks, key) {
				r.Violation("C40/short-key-verified", c, "Verify accepts the %d-byte key %x", len(key), key)
			}
			ks := state.Keys{}
			if ks.Add(string(key), state.All) || len(ks) != 0 {
				r.Violation("C40/short-key-added", c, "state.Keys.Add accepted the %d-byte key %x (len now %d)", len(key), key, len(ks))
			}
			// a short key smuggled into the map must make ChunkSizes fail
			ks = state.Keys{string(key): state.All, string(keys.EncodeChunks([]byte("ok"), 1)): state.Read}
			if _, ok := ks.ChunkSizes(); ok {
				r.Violation("C40/short-key-chunksizes", c, "Keys.ChunkSizes succeeded with the %d-byte key %x present", len(key), key)
			}
			r.Count("short_keys_judged", 1)
		} else {
			ks := state.Keys{}
			if !ks.Add(string(key), state.Read) || len(ks) != 1 {
				r.Violation("C40/valid-key-not-added", c, "state.Keys.Add rejected the %d-byte key %x", len(key), key)
			}
			if cs, ok := ks.ChunkSizes(); !ok || len(cs) != 1 || int(cs[0]) != wantS {
				r.Violation("C40/chunksizes-not-suffix", c, "Keys.ChunkSizes()=(%v,%v) for key %x with suffix %d", cs, ok, key, wantS)
			}
			// EncodeChunks(prefix, s) must decode to s
			pre := key[:len(key)-2]
			enc := keys.EncodeChunks(append([]byte{}, pre...), uint16(wantS))
			if hex.EncodeToString(enc) != hex.EncodeToString(key) {
				r.Violation("C40/encodechunks-roundtrip", c, "EncodeChunks(%x,%d)=%x, want %x", pre, wantS, enc, key)
			}
		}
	})
	r.Distinct("keys", len(key), kit.Hex(key))
}

// c40PureValue judges NumChunks / VerifyValue for a value length against a key.
func c40PureValue(r *kit.Run, key []byte, n int) {
	c := c40Case{Part: "verifyvalue", Key: kit.Hex(key), ValLen: n}
	v := c40Value(n)
	r.Guard("keys.VerifyValue", c, func() {
		r.Eval()
		wc, wok := c40Chunks(n)
		if got, ok := keys.NumChunks(v); ok != wok || (ok && int(got) != wc) {
			r.Violation("C40/numchunks-formula", c, "NumChunks(len %d)=(%d,%v), want (%d,%v)", n, got, ok, wc, wok)
		}
		want := c40Writable(key, n)
		if got := keys.VerifyValue(key, v); got != want {
			if got {
				r.Violation("C40/oversize-value-verified", c, "VerifyValue(key %x, %d bytes)=true but the value needs %d chunks (fits 16 bits: %v)", key, n, wc, wok)
			} else {
				r.Violation("C40/fitting-value-rejected", c, "VerifyValue(key %x, %d bytes)=false but the value needs %d chunks", key, n, wc)
			}
		}
		if want {
			r.Count("verifyvalue_accept", 1)
		} else {
			r.Count("verifyvalue_reject", 1)
		}
	})
	s, _ := c40Suffix(key)
	r.Distinct("vv", len(key), s, n)
}

// c40Encode judges Encode(prefix, max): ok iff max is within the chunk limit, and then every length <= max is admitted.
func c40Encode(r *kit.Run, rng *rand.Rand, prefix []byte, max int) {
	c := c40Case{Part: "encode", Key: kit.Hex(prefix), Max: max}
	r.Guard("keys.Encode", c, func() {
		r.Eval()
		_, wok := c40Chunks(max)
		key, ok := keys.Encode(append([]byte{}, prefix...), max)
		if ok != wok {
			r.Violation("C40/encode-limit", c, "Encode(%x,%d) ok=%v, want %v", prefix, max, ok, wok)
			return
		}
		if !ok {
			r.Count("encode_beyond_limit", 1)
			return
		}
		if len(key) != len(prefix)+2 || hex.EncodeToString(key[:len(prefix)]) != hex.EncodeToString(prefix) {
			r.Violation("C40/encode-shape", c, "Encode(%x,%d)=%x is not prefix+2 bytes", prefix, max, key)
			return
		}
		lens := []int{0, 1, max / 2, max - 64, max - 1, max}
		for i := 0; i < 4; i++ {
			lens = append(lens, rng.IntN(max+1))
		}
		for _, n := range lens {
			if n < 0 || n > max {
				continue
			}
			c.ValLen = n
			if !keys.VerifyValue(key, c40Value(n)) {
				r.Violation("C40/encoded-key-rejects-admissible-value", c, "key Encode(%x,%d)=%x rejects a value of %d <= %d bytes", prefix, max, key, n, max)
			}
			if !c40Writable(key, n) {
				r.Violation("C40/encoded-key-too-small", c, "key Encode(%x,%d)=%x has a suffix too small for %d <= %d bytes", prefix, max, key, n, max)
			}
			r.Count("encode_admitted_lengths", 1)
		}
	})
	r.Distinct("enc", len(prefix), max)
}

// c40Insert judges TStateView.Insert of a value of n bytes into key under the given scope kind.
func c40Insert(r *kit.Run, ctx context.Context, key []byte, n int, scopeKind string, preexisting bool) {
	c := c40Case{Part: "insert", Key: kit.Hex(key), ValLen: n, Scope: scopeKind}
	if preexisting {
		c.Note = "key exists in storage"
	}
	r.Guard("TStateView.Insert", c, func() {
		r.Eval()
		storage := state.ImmutableStorage{}
		old := []byte("old")
		if preexisting {
			storage[string(key)] = old
		}
		var scope state.Scope = state.CompletePermissions
		if scopeKind == "keys" {
			scope = state.Keys{string(key): state.All} // direct assignment: Add would refuse short keys
		}
		ts := tstate.New(1)
		view := ts.NewView(scope, storage, 1)
		v := c40Value(n)
		err := view.Insert(ctx, key, v)
		want := c40Writable(key, n)
		if want && preexisting && n == len(old) {
			return // same length as the old value: not used (content equality would make it a no-op)
		}
		switch {
		case want && err != nil:
			r.Violation("C40/fitting-insert-rejected", c, "Insert(key %x, %d bytes) failed: %v", key, n, err)
		case !want && err == nil:
			if len(key) < 2 {
				r.Violation("C40/short-key-written", c, "Insert into the %d-byte key %x succeeded", len(key), key)
			} else {
				wc, wok := c40Chunks(n)
				r.Violation("C40/oversize-insert-accepted", c, "Insert(key %x, %d bytes) succeeded but the value needs %d chunks (fits 16 bits: %v)", key, n, wc, wok)
			}
		}
		got, gerr := view.GetValue(ctx, key)
		if err == nil {
			r.Count("insert_accept", 1)
			if gerr != nil || len(got) != n || (n > 0 && (got[0] != v[0] || got[n-1] != v[n-1])) {
				r.Violation("C40/insert-not-readable", c, "after a successful Insert of %d bytes the view reads (%d bytes, %v)", n, len(got), gerr)
			}
		} else {
			r.Count("insert_reject", 1)
			// a refused write must change nothing
			if view.OpIndex() != 0 || view.PendingChanges() != 0 {
				r.Violation("C40/rejected-insert-changed-view", c, "rejected Insert left OpIndex=%d PendingChanges=%d", view.OpIndex(), view.PendingChanges())
			}
			if preexisting {
				if gerr != nil || string(got) != string(old) {
					r.Violation("C40/rejected-insert-changed-view", c, "after a rejected Insert the key reads (%q,%v), want the old value", got, gerr)
				}
			} else if !errors.Is(gerr, database.ErrNotFound) {
				r.Violation("C40/rejected-insert-changed-view", c, "after a rejected Insert the absent key reads (%d bytes,%v)", len(got), gerr)
			}
		}
	})
	s, _ := c40Suffix(key)
	r.Distinct("ins", len(key), s, n, scopeKind, preexisting)
}

// c40Tx judges Transaction.StateKeys / Units for actions (and optionally the sponsor) declaring the given keys.
func c40Tx(r *kit.Run, rules *genesis.Rules, decls [][]chainfx.KeyDecl, shortSponsorKey []byte, nonce uint64) {
	c := c40Case{Part: "tx"}
	anyShort := false
	for _, ds := range decls {
		for _, d := range ds {
			c.Decl = append(c.Decl, kit.Hex(d.Key))
			if len(d.Key) < 2 {
				anyShort = true
			}
		}
	}
	var bh chain.BalanceHandler = balance.NewPrefixBalanceHandler([]byte{0})
	if shortSponsorKey != nil {
		bh = c40ShortSponsorBH{PrefixBalanceHandler: balance.NewPrefixBalanceHandler([]byte{0}), extra: string(shortSponsorKey)}
		c.Note = "sponsor declares " + kit.Hex(shortSponsorKey)
		if len(shortSponsorKey) < 2 {
			anyShort = true
		}
	}
	r.Guard("Transaction.StateKeys", c, func() {
		r.Eval()
		var actions []chain.Action
		for i, ds := range decls {
			a := &chainfx.ProgAction{Nonce: nonce*16 + uint64(i), Start: -1, End: -1, Keys: ds}
			a.Canonicalize()
			actions = append(actions, a)
		}
		addr := chainfx.SpyAddr(1)
		f := &chainfx.SpyFactory{Auth: chainfx.SpyAuth{ActorAddr: addr, SponsorAddr: addr, Start: -1, End: -1, OK: true}}
		mk := func() *chain.Transaction {
			tx, err := chainfx.Tx(chain.Base{Timestamp: 1000, ChainID: rules.ChainID, MaxFee: 1 << 40}, actions, f)
			if err != nil {
				panic(err)
			}
			return tx
		}
		// StateKeys and Units on separate transactions (StateKeys caches)
		ks, err := mk().StateKeys(bh)
		if anyShort && err == nil {
			r.Violation("C40/short-key-declared-statekeys", c, "Transaction.StateKeys accepted a declaration with a key shorter than two bytes (%d keys returned)", len(ks))
		}
		if !anyShort && err != nil {
			r.Violation("C40/valid-keys-statekeys-error", c, "Transaction.StateKeys failed on valid keys: %v", err)
		}
		_, uerr := mk().Units(bh, rules)
		if anyShort && uerr == nil {
			r.Violation("C40/short-key-declared-units", c, "Transaction.Units accepted a declaration with a key shorter than two bytes")
		}
		if !anyShort && uerr != nil {
			r.Violation("C40/valid-keys-units-error", c, "Transaction.Units failed on valid keys: %v", uerr)
		}
		// asking the same transaction object again (the processor, builder and admission all do)
		// must not turn a refusal into an answer
		again := mk()
		_, e1 := again.StateKeys(bh)
		_, e2 := again.StateKeys(bh)
		_, e3 := again.Units(bh, rules)
		_, e4 := again.Units(bh, rules)
		if anyShort && (e1 == nil || e2 == nil || e3 == nil || e4 == nil) {
			r.Violation("C40/short-key-accepted-on-repeated-call", c, "repeated StateKeys/Units calls on one transaction with a key shorter than two bytes returned errors (%v, %v, %v, %v): one of them accepted the declaration", e1, e2, e3, e4)
		}
		if !anyShort && (e1 != nil || e2 != nil || e3 != nil || e4 != nil) {
			r.Violation("C40/valid-keys-error-on-repeated-call", c, "repeated StateKeys/Units calls on valid keys failed: %v %v %v %v", e1, e2, e3, e4)
		}
		if anyShort {
			r.Count("tx_short_declarations", 1)
		} else {
			r.Count("tx_valid_declarations", 1)
		}
	})
	r.Distinct("tx", fmt.Sprint(c.Decl), c.Note)
}

func TestC40(t *testing.T) {
	r := kit.Start(t, "C40", "exploration")
	r.Rule("(keys) every key length 0..8 with boundary and random suffixes through MaxChunks/DecodeChunks/Valid/Verify/Keys.Add/Keys.ChunkSizes/EncodeChunks; (verifyvalue) value lengths 64c-1, 64c, 64c+1 around every one of the 65535 chunk boundaries c and beyond the 16-bit limit against keys whose suffix is c-1, c, c+1, 0 and 0xffff; (encode) Encode(prefix,max) for boundary/random max incl. beyond the limit, then lengths 0,1,max/2,max-64,max-1,max and random <= max must be admitted; (insert) the same length/suffix grid (quick: boundaries 1..400, 1500 sampled, the top 40; thorough: all) through TStateView.Insert under CompletePermissions and under a state.Keys scope holding the key with All, on absent and pre-existing keys, incl. keys of 0 and 1 bytes; a refused write must leave OpIndex, PendingChanges and the read unchanged; (tx) Transaction.StateKeys/Units over 1..3 actions declaring keys of length 0..4 and a sponsor declaring a short key must fail iff some declared key is shorter than two bytes. Distinct = distinct (part, key length, suffix, value length, scope).")
	r.Assume("chunk count of a value is hypersdk's definition: 0 for the empty value, else len/64+1, limited to 65535 (DESIGN C40)",
		"reads of short keys are not judged (the statement speaks of declaring and writing)")
	ctx := context.Background()
	c40Buf = make([]byte, (c40MaxChunks+3)*64)
	for i := range c40Buf {
		c40Buf[i] = byte(1 + i%251)
	}
	rng := r.Rand("cases")
	rules := genesis.NewDefaultRules()

	if rf := r.Replay(); rf != nil && len(rf.Witness) > 0 {
		var c c40Case
		if err := jsonUnmarshal(rf.Witness, &c); err == nil && c.Part != "" {
			key, _ := hex.DecodeString(c.Key)
			switch c.Part {
			case "keys":
				c40PureKey(r, key)
			case "verifyvalue":
				c40PureValue(r, key, c.ValLen)
			case "encode":
				c40Encode(r, rng, key, c.Max)
			case "insert":
				c40Insert(r, ctx, key, c.ValLen, c.Scope, c.Note != "")
			case "tx":
				var ds []chainfx.KeyDecl
				for _, h := range c.Decl {
					k, _ := hex.DecodeString(h)
					ds = append(ds, chainfx.KeyDecl{Key: k, Perm: state.All})
				}
				c40Tx(r, rules, [][]chainfx.KeyDecl{ds}, nil, 1)
			}
			r.Finish(0)
			return
		}
	}

	sufPool := []int{0, 1, 2, 3, 0xFF, 0x100, 0x101, 0x1FF, 0x7FFF, 0x8000, 0xFFFE, 0xFFFF}
	randKey := func(l int, suffix int) []byte {
		k := make([]byte, l)
		for i := range k {
			k[i] = byte(rng.UintN(256))
		}
		if l >= 2 && suffix >= 0 {
			k[l-2], k[l-1] = byte(suffix>>8), byte(suffix)
		}
		return k
	}

	// (keys)
	for l := 0; l <= 8; l++ {
		for _, s := range sufPool {
			c40PureKey(r, randKey(l, s))
		}
		for i := 0; i < r.N(40, 2000); i++ {
			c40PureKey(r, randKey(l, -1))
		}
	}
	// all one-byte keys and the empty key explicitly
	c40PureKey(r, []byte{})
	c40PureKey(r, nil)
	for b := 0; b < 256; b++ {
		c40PureKey(r, []byte{byte(b)})
	}

	// chunk boundaries to visit: all of them for the pure functions, a subset for the heavier paths in quick
	var all, bounds []int
	for c := 1; c <= c40MaxChunks+1; c++ {
		all = append(all, c)
	}
	if r.Thorough() {
		bounds = all
	} else {
		for c := 1; c <= 400; c++ {
			bounds = append(bounds, c)
		}
		for i := 0; i < 1500; i++ {
			bounds = append(bounds, 401+rng.IntN(c40MaxChunks-500))
		}
		for c := c40MaxChunks - 40; c <= c40MaxChunks+1; c++ {
			bounds = append(bounds, c)
		}
		for _, c := range []int{255, 256, 257, 511, 512, 32767, 32768, 32769} {
			bounds = append(bounds, c)
		}
	}
	// (verifyvalue): lengths around boundary c: 64c-1 needs c chunks, 64c and 64c+1 need c+1
	for _, c := range all {
		for _, n := range []int{64*c - 1, 64 * c, 64*c + 1} {
			if n > len(c40Buf) {
				continue
			}
			for _, s := range []int{c - 1, c, c + 1, 0, 0xFFFF} {
				if s < 0 || s > 0xFFFF {
					continue
				}
				c40PureValue(r, randKey(2+rng.IntN(4), s), n)
			}
		}
	}
	for _, n := range []int{0, 1, 2, 62, 63} {
		for _, s := range []int{0, 1, 2, 0xFFFF} {
			c40PureValue(r, randKey(2+rng.IntN(7), s), n)
		}
		c40PureValue(r, randKey(rng.IntN(2), -1), n) // short key: never verifies
	}
	for i := 0; i < r.N(20000, 400000); i++ {
		n := rng.IntN(len(c40Buf) + 1)
		if rng.IntN(2) == 0 {
			n = rng.IntN(64 * 8)
		}
		s := rng.IntN(0x10000)
		switch rng.IntN(3) {
		case 0:
			s = sufPool[rng.IntN(len(sufPool))]
		case 1: // near the value's own chunk count
			wc, _ := c40Chunks(n)
			s = wc - 1 + rng.IntN(3)
			if s < 0 {
				s = 0
			}
			if s > 0xFFFF {
				s = 0xFFFF
			}
		}
		c40PureValue(r, randKey(rng.IntN(9), s), n)
	}

	// (encode)
	var maxes []int
	for _, c := range bounds {
		maxes = append(maxes, 64*c-1, 64*c)
	}
	maxes = append(maxes, 0, 1, 63, 64, 65, c40MaxChunks*64-1, c40MaxChunks*64, c40MaxChunks*64+1, c40MaxChunks*64+64)
	for i, m := range maxes {
		if m > len(c40Buf) {
			continue
		}
		_ = i
		c40Encode(r, rng, randKey(rng.IntN(7), -1), m)
	}

	// (insert)
	insBounds := bounds
	for _, c := range insBounds {
		for _, n := range []int{64*c - 1, 64 * c, 64*c + 1} {
			if n > len(c40Buf) {
				continue
			}
			for _, s := range []int{c - 1, c, c + 1} {
				if s < 0 || s > 0xFFFF {
					continue
				}
				scope := []string{"complete", "keys"}[rng.IntN(2)]
				c40Insert(r, ctx, randKey(2+rng.IntN(5), s), n, scope, rng.IntN(3) == 0)
			}
		}
	}
	for _, scope := range []string{"complete", "keys"} {
		for _, pre := range []bool{false, true} {
			for _, n := range []int{0, 1, 63, 64, 65, 4096} {
				c40Insert(r, ctx, []byte{}, n, scope, pre)
				c40Insert(r, ctx, []byte{byte(rng.UintN(256))}, n, scope, pre)
				c40Insert(r, ctx, []byte{0xFF}, n, scope, pre)
				for _, s := range []int{0, 1, 2, 0xFFFF} {
					c40Insert(r, ctx, randKey(2+rng.IntN(7), s), n, scope, pre)
				}
			}
			c40Insert(r, ctx, randKey(4, 0xFFFF), c40MaxChunks*64-1, scope, pre)
			c40Insert(r, ctx, randKey(4, 0xFFFF), c40MaxChunks*64, scope, pre)
			c40Insert(r, ctx, randKey(2, 0xFFFF), c40MaxChunks*64+1, scope, pre)
		}
	}

	// (tx)
	nonce := uint64(0)
	nTx := r.N(3000, 60000)
	for i := 0; i < nTx; i++ {
		na := 1 + rng.IntN(3)
		var decls [][]chainfx.KeyDecl
		for a := 0; a < na; a++ {
			nk := rng.IntN(4)
			var ds []chainfx.KeyDecl
			for k := 0; k < nk; k++ {
				l := 2 + rng.IntN(4)
				if rng.IntN(6) == 0 {
					l = rng.IntN(2) // short
				}
				key := randKey(l, sufPool[rng.IntN(4)])
				if l == 1 && rng.IntN(2) == 0 {
					key = []byte{byte(rng.IntN(3))}
				}
				ds = append(ds, chainfx.KeyDecl{Key: key, Perm: state.Permissions(1 + rng.IntN(7))})
			}
			decls = append(decls, ds)
		}
		var sponsorShort []byte
		if rng.IntN(10) == 0 {
			sponsorShort = randKey(rng.IntN(3), 1) // length 0,1 (short) or 2 (valid)
		}
		nonce++
		c40Tx(r, rules, decls, sponsorShort, nonce)
	}
	r.Finish(r.N(5000, 100000))
}
