package statex

import (
	"encoding/hex"
	"fmt"
	"strings"
	"testing"

	"github.com/ava-labs/hypersdk/chain"
	"github.com/ava-labs/hypersdk/state/metadata"
	"github.com/ava-labs/hypersdk/zzverif/kit"
)

// c39Case is one input of the prefix-conflict check: the three chain metadata
// prefixes (height, fee, timestamp) followed by the VM prefixes, hex encoded.
type c39Case struct {
	Meta [3]string `json:"meta"` // height, fee, timestamp (hex)
	VM   []string  `json:"vm"`   // hex
	Own  bool      `json:"own_manager,omitempty"`
}

// c39Manager is a second, harness-owned implementation of the interface so the
// check is exercised through the interface and not only through metadata.NewManager.
type c39Manager struct{ h, f, t []byte }

func (m c39Manager) HeightPrefix() []byte    { return m.h }
func (m c39Manager) FeePrefix() []byte       { return m.f }
func (m c39Manager) TimestampPrefix() []byte { return m.t }

var _ chain.MetadataManager = c39Manager{}

// c39IsPrefix is the oracle's own definition: a is a prefix of b.
func c39IsPrefix(a, b []byte) bool {
	if len(a) > len(b) {
		return false
	}
	for i := range a {
		if a[i] != b[i] {
			return false
		}
	}
	return true
}

// c39Oracle: exists i != j with list[i] a prefix of list[j] (equal strings included).
func c39Oracle(list [][]byte) (bool, int, int) {
	for i := range list {
		for j := range list {
			if i != j && c39IsPrefix(list[i], list[j]) {
				return true, i, j
			}
		}
	}
	return false, -1, -1
}

func c39Judge(r *kit.Run, meta [3][]byte, vm [][]byte, own bool) {
	c := c39Case{Own: own}
	for i, m := range meta {
		c.Meta[i] = kit.Hex(m)
	}
	for _, v := range vm {
		c.VM = append(c.VM, kit.Hex(v))
	}
	list := append([][]byte{meta[0], meta[1], meta[2]}, vm...)
	want, wi, wj := c39Oracle(list)
	// the real code gets private copies so that an implementation mutating its inputs cannot confuse the oracle
	cp := func(b []byte) []byte {
		if b == nil {
			return nil
		}
		return append([]byte{}, b...)
	}
	var mm chain.MetadataManager
	if own {
		mm = c39Manager{h: cp(meta[0]), f: cp(meta[1]), t: cp(meta[2])}
	} else {
		mm = metadata.NewManager(cp(meta[0]), cp(meta[1]), cp(meta[2]))
	}
	vmc := make([][]byte, len(vm))
	for i := range vm {
		vmc[i] = cp(vm[i])
	}
	if vm == nil {
		vmc = nil
	}
	var got bool
	ok := false
	r.Guard("HasConflictingPrefixes", c, func() { got = metadata.HasConflictingPrefixes(mm, vmc); ok = true })
	r.Eval()
	if !ok {
		return
	}
	switch {
	case want && !got:
		r.Violation("C39/conflict-missed", c, "entry %d (%x) is a prefix of entry %d (%x) but no conflict was reported [list: height,fee,timestamp,vm...]", wi, list[wi], wj, list[wj])
		r.Count("oracle_conflict", 1)
	case !want && got:
		r.Violation("C39/spurious-conflict", c, "no entry is a prefix of another but a conflict was reported")
		r.Count("oracle_no_conflict", 1)
	case want:
		r.Count("oracle_conflict", 1)
	default:
		r.Count("oracle_no_conflict", 1)
	}
	// every judged list is a distinct input; non-trivial = at least two non-empty
	// entries sharing their first byte (the verdict depends on more than first bytes / emptiness)
	first := map[byte]int{}
	nontrivial := false
	for _, p := range list {
		if len(p) > 0 {
			first[p[0]]++
			if first[p[0]] >= 2 {
				nontrivial = true
			}
		}
	}
	if nontrivial {
		r.Distinct(c39Shape(c))
		r.Sample(c)
	}
}

func c39Shape(c c39Case) string {
	return fmt.Sprintf("%v|%s|%s", c.Own, strings.Join(c.Meta[:], ","), strings.Join(c.VM, ","))
}

func c39Unhex(s string) []byte {
	b, _ := hex.DecodeString(s)
	return b
}

func TestC39(t *testing.T) {
	r := kit.Start(t, "C39", "exploration")
	r.Rule("input = (height prefix, fee prefix, timestamp prefix, VM prefix list). Exhaustive: every assignment of the 7 byte strings of length <=2 over the alphabet {00,01} to the three metadata prefixes and to 0..K VM prefixes (K=2 quick, 4 thorough). Near-miss: prefix-free lists (verdict must be no-conflict) and the same with exactly one planted equal/extended/truncated entry. Random: 3+0..8 prefixes of length 0..5 over alphabets of 2..4 symbols (incl. 0xff), biased to share stems, with nil vs empty slices, through metadata.NewManager and through a harness-owned MetadataManager. Oracle: exists i!=j with entry i a byte-wise prefix of entry j. Histories (every single answer judged by the same oracle on private deep copies of what the caller configured): (4) a caller-owned array of 2..10 prefixes (separately allocated byte strings with spare capacity, or adjacent uncapped sub-slices of one byte buffer) checked 2..6 times over views arr[lo:hi] that grow, shrink or repeat (two-index views keep the spare capacity behind hi, some are capped), with the same or other managers; after every call the array up to its capacity, every prefix byte string and the manager's prefixes must be unchanged and a repeated check must repeat its answer. (5) 2..6 goroutines with different managers (half of them conflicting with the view) check views of one shared array with >=3 slots of spare capacity 200 times each at the same time; each answer must be the oracle's, the array unchanged afterwards. (6) managers from metadata.NewManager (exact-capacity or spare-capacity private prefix slices) and NewDefaultManager used the way the chain uses them: chain.HeightKey / FeeKey / TimestampKey derived from m.HeightPrefix() / FeePrefix() / TimestampPrefix() any number of times in any order before and between checks; the manager's prefixes must stay the configured ones and every check must be exact w.r.t. the CONFIGURED prefixes (VM prefixes related to the configured prefixes and to chunk-count bytes 0001 / 0008). Non-trivial = at least two non-empty entries share their first byte (lists); a history with a spare-capacity view and >=2 checks, a check after a key derivation, a concurrent group with both verdicts; distinct = distinct list / history.")
	r.Assume("the check is a query: it answers for the prefixes passed to it and leaves the caller's slices (up to their capacity) and the manager's prefixes as they are; the answer required of one call does not depend on earlier or concurrent calls",
		"deriving the chain's state keys (chain.HeightKey/FeeKey/TimestampKey) from a manager's prefixes is a read of the manager; the prefix slices handed to metadata.NewManager are separately allocated",
		"'one prefix is a prefix of another' includes equal prefixes and the empty prefix (prefix of everything), as the statement says")
	if rf := r.Replay(); rf != nil && len(rf.Witness) > 0 {
		var part struct {
			Part string `json:"part"`
		}
		_ = jsonUnmarshal(rf.Witness, &part)
		switch part.Part {
		case "alias":
			var h c39AliasHist
			if err := jsonUnmarshal(rf.Witness, &h); err == nil {
				c39RunAlias(r, h)
				r.Finish(0)
				return
			}
		case "derive":
			var h c39DeriveHist
			if err := jsonUnmarshal(rf.Witness, &h); err == nil {
				c39RunDerive(r, h)
				r.Finish(0)
				return
			}
		case "concurrent":
			var c c39ConcCase
			if err := jsonUnmarshal(rf.Witness, &c); err == nil && len(c.Workers) > 0 {
				for i := 0; i < 50; i++ { // an interleaving cannot be replayed step by step: re-run the group
					c39RunConc(r, c)
				}
				r.Finish(0)
				return
			}
		}
		var c c39Case
		if err := jsonUnmarshal(rf.Witness, &c); err == nil {
			var meta [3][]byte
			for i := range meta {
				meta[i] = c39Unhex(c.Meta[i])
			}
			var vm [][]byte
			for _, v := range c.VM {
				vm = append(vm, c39Unhex(v))
			}
			c39Judge(r, meta, vm, c.Own)
			r.Finish(0)
			return
		}
	}

	// (1) exhaustive small scope
	alpha := []byte{0x00, 0x01}
	var univ [][]byte
	univ = append(univ, []byte{})
	for _, a := range alpha {
		univ = append(univ, []byte{a})
	}
	for _, a := range alpha {
		for _, b := range alpha {
			univ = append(univ, []byte{a, b})
		}
	}
	K := r.N(2, 4)
	exh := 0
	var rec func(list [][]byte, total int)
	rec = func(list [][]byte, total int) {
		if len(list) == total {
			c39Judge(r, [3][]byte{list[0], list[1], list[2]}, list[3:], false)
			exh++
			return
		}
		for _, u := range univ {
			rec(append(list, u), total)
		}
	}
	for total := 3; total <= 3+K; total++ {
		rec(make([][]byte, 0, total), total)
	}
	r.Count("exhaustive_lists", exh)
	r.Extra("exhaustive_max_vm_prefixes", K)

	// (2) random longer lists
	rng := r.Rand("random")
	n := r.N(40000, 1500000)
	for i := 0; i < n && r.Violations() < 20; i++ {
		syms := [][]byte{{0x00, 0x01}, {0x00, 0xff}, {0x00, 0x01, 0x02}, {0x03, 0x04, 0xfe, 0xff}}[rng.IntN(4)]
		maxLen := 1 + rng.IntN(5)
		total := 3 + rng.IntN(9)
		var list [][]byte
		for len(list) < total {
			var p []byte
			switch x := rng.IntN(10); {
			case x < 2 && len(list) > 0:
				// extend or truncate an earlier entry (near-conflicts and conflicts)
				base := list[rng.IntN(len(list))]
				p = append([]byte{}, base...)
				switch rng.IntN(3) {
				case 0:
					p = append(p, syms[rng.IntN(len(syms))])
				case 1:
					if len(p) > 0 {
						p = p[:rng.IntN(len(p))]
					}
				default:
					if len(p) > 0 {
						p[len(p)-1] = syms[rng.IntN(len(syms))]
					}
				}
			default:
				l := rng.IntN(maxLen + 1)
				if rng.IntN(12) != 0 && l == 0 {
					l = 1 + rng.IntN(maxLen) // keep the empty prefix rare, it conflicts with everything
				}
				p = make([]byte, l)
				for j := range p {
					p[j] = syms[rng.IntN(len(syms))]
				}
			}
			if len(p) == 0 && rng.IntN(2) == 0 {
				p = nil
			}
			list = append(list, p)
		}
		var vm [][]byte
		if total > 3 {
			vm = list[3:]
		}
		c39Judge(r, [3][]byte{list[0], list[1], list[2]}, vm, rng.IntN(2) == 0)
	}

	// (3) near-misses: a prefix-free list (so the verdict must be "no conflict"),
	// and the same list with exactly one planted conflict (equal / extension / truncation)
	n3 := r.N(40000, 1500000)
	for i := 0; i < n3 && r.Violations() < 20; i++ {
		nsym := 2 + rng.IntN(3)
		maxLen := 2 + rng.IntN(5)
		total := 3 + rng.IntN(7)
		var list [][]byte
		for tries := 0; len(list) < total && tries < 200; tries++ {
			p := make([]byte, 1+rng.IntN(maxLen))
			for j := range p {
				p[j] = byte(rng.IntN(nsym))
				if rng.IntN(8) == 0 {
					p[j] = 0xff - byte(rng.IntN(2))
				}
			}
			free := true
			for _, q := range list {
				if c39IsPrefix(p, q) || c39IsPrefix(q, p) {
					free = false
					break
				}
			}
			if free {
				list = append(list, p)
			}
		}
		if len(list) < 3 {
			continue
		}
		if rng.IntN(2) == 0 {
			a, b := rng.IntN(len(list)), rng.IntN(len(list))
			if a != b {
				src := list[b]
				var p []byte
				switch rng.IntN(3) {
				case 0:
					p = append([]byte{}, src...) // equal
				case 1:
					p = append(append([]byte{}, src...), byte(rng.IntN(nsym))) // extension
				default:
					p = append([]byte{}, src[:rng.IntN(len(src)+1)]...) // truncation (possibly empty)
				}
				list[a] = p
				r.Count("planted_conflicts", 1)
			}
		}
		var vm [][]byte
		if len(list) > 3 {
			vm = list[3:]
		}
		c39Judge(r, [3][]byte{list[0], list[1], list[2]}, vm, rng.IntN(2) == 0)
	}

	// (4)-(6) histories: views of one caller-owned array, concurrent chains, key derivation
	c39Histories(r)
	r.Finish(r.N(2000, 20000))
}
