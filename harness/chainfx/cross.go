package chainfx

import (
	"encoding/binary"
	"math/rand/v2"

	"github.com/ava-labs/hypersdk/chain"
	"github.com/ava-labs/hypersdk/codec"
	"github.com/ava-labs/hypersdk/fees"
	"github.com/ava-labs/hypersdk/state"
)

// This file generates transactions whose sponsor's ABILITY TO PAY changes
// inside the block: an account without (enough) funds in the parent state is
// funded by an earlier transaction of the same block and then sponsors a later
// one, or a funded sponsor is drained below / exactly to the fee of its later
// transaction by an earlier transaction. Amounts are aimed with the model's fee
// formula at exactly fee, fee-1 and fee+1. The generator only aims; the verdict
// (valid / invalid block, results) is the sequential model's.

// AddFresh appends n sponsors that own NO balance entry in the genesis state
// (draws nothing from any PRNG, so existing random streams are unchanged).
// Fresh sponsors are never picked by GenTx.
func (w *World) AddFresh(n int) {
	for i := 0; i < n; i++ {
		a := SpyAddr(3000 + len(w.Fresh))
		w.FreshFactories = append(w.FreshFactories, &SpyFactory{Auth: SpyAuth{ActorAddr: a, SponsorAddr: a, Compute: uint64(len(w.Fresh) % 3), Start: -1, End: -1, OK: true}})
		w.Fresh = append(w.Fresh, a)
	}
}

// BalKey is the prefix-handler balance key of addr (prefix {0}).
func BalKey(addr codec.Address) []byte {
	m := &Model{BalPrefix: []byte{0}}
	return []byte(m.balKey(addr))
}

// ModelFeeOf computes the fee of tx at prices with the model's formula (0,false on overflow).
func (w *World) ModelFeeOf(tx *chain.Transaction, prices fees.Dimensions) (uint64, bool) {
	m := &Model{Rules: w.Rules, BalPrefix: []byte{0}}
	u, ok := m.Units(tx)
	if !ok {
		return 0, false
	}
	return ModelFee(prices, u)
}

// Cross kinds (evidence counters / distinctness).
const (
	CrossFundExact           = "fund-exact"        // balance after funding == fee of the later tx
	CrossFundPlus            = "fund-plus1"        // fee+1
	CrossFundShort           = "fund-short"        // fee-1: block invalid
	CrossFundTwoExact        = "fund-two-exact"    // exactly the fees of two later txs
	CrossFundTwoShort        = "fund-two-short"    // one unit short for the second: block invalid
	CrossDrainExact          = "drain-to-fee"      // funded, pays, drained by another sponsor to exactly/just above the next fee
	CrossDrainShort          = "drain-below-fee"   // drained to fee-1 / 0 / deleted: block invalid
	CrossSelfDrain           = "self-drain-to-fee" // the sponsor's own earlier tx overwrites its balance with exactly the next fee
	CrossSelfDrainLow        = "self-drain-below"  // ... with fee-1: block invalid
	CrossFundRollback        = "fund-rolled-back"  // funding action fails after the write: block invalid
	CrossFundNoAlloc         = "fund-no-allocate"  // funding put without allocate permission on an absent key fails; valid only when the account already exists
	crossBig          uint64 = 1 << 41
)

// GenSponsorCross returns a transaction sequence (to be kept in this relative
// order inside one block; other transactions may be interleaved) around the
// fresh sponsor number fi. funder / funder2 index w.Factories (sponsors that
// are rich in the parent state). The later transactions of the fresh sponsor
// carry random programs drawn with g.
func (w *World) GenSponsorCross(rng *rand.Rand, g GenCfg, prices fees.Dimensions, ts int64, fi, funder, funder2 int) ([]*chain.Transaction, string, error) {
	x := w.Fresh[fi]
	xf := w.FreshFactories[fi]
	bk := BalKey(x)
	base := func() chain.Base {
		return chain.Base{Timestamp: (ts/1000 + 1 + int64(rng.IntN(20))) * 1000, ChainID: w.Rules.ChainID, MaxFee: 1 << 50}
	}
	be := func(v uint64) []byte { return binary.BigEndian.AppendUint64(nil, v) }
	// later transaction of the fresh sponsor + its exact fee
	later := func() (*chain.Transaction, uint64, error) {
		var acts []chain.Action
		for i, n := 0, 1+rng.IntN(2); i < n; i++ {
			acts = append(acts, w.GenAction(rng, g))
		}
		tx, err := Tx(base(), acts, xf)
		if err != nil {
			return nil, 0, err
		}
		fee, _ := w.ModelFeeOf(tx, prices)
		return tx, fee, nil
	}
	// transaction of sponsor f whose single action runs ops on x's balance key
	setter := func(f chain.AuthFactory, perm state.Permissions, ops ...Op) (*chain.Transaction, error) {
		w.nonce++
		a := &ProgAction{Nonce: w.nonce, Compute: uint64(rng.IntN(3)), Start: -1, End: -1, Keys: []KeyDecl{{Key: bk, Perm: perm}}}
		if rng.IntN(3) == 0 {
			a.Ops = append(a.Ops, Op{Kind: OpYield, N: uint32(rng.IntN(60))}) // the dependent tx is queued while this one runs
		}
		a.Ops = append(a.Ops, ops...)
		return Tx(base(), []chain.Action{a}, f)
	}
	put := func(v uint64) Op { return Op{Kind: OpPut, Key: bk, Val: be(v)} }
	sub := func(a, b uint64) uint64 {
		if a < b {
			return 0
		}
		return a - b
	}
	l1, f1, err := later()
	if err != nil {
		return nil, "", err
	}
	l2, f2, err := later()
	if err != nil {
		return nil, "", err
	}
	S, S2 := w.Factories[funder], w.Factories[funder2]
	var seq []*chain.Transaction
	var firstErr error
	add := func(tx *chain.Transaction, err error) {
		if err != nil && firstErr == nil {
			firstErr = err
		}
		seq = append(seq, tx)
	}
	kind := ""
	// valid-looking kinds are drawn more often than the ones aimed at an invalid block
	switch v := rng.IntN(16); {
	case v < 3:
		kind = CrossFundExact
		add(setter(S, state.All, put(f1)))
		add(l1, nil)
	case v < 5:
		kind = CrossFundPlus
		add(setter(S, state.All, put(f1+1)))
		add(l1, nil)
	case v < 6:
		kind = CrossFundShort
		add(setter(S, state.All, put(sub(f1, 1))))
		add(l1, nil)
	case v < 8:
		kind = CrossFundTwoExact
		add(setter(S, state.All, put(f1+f2)))
		add(l1, nil)
		add(l2, nil)
	case v < 9:
		kind = CrossFundTwoShort
		add(setter(S, state.All, put(sub(f1+f2, 1))))
		add(l1, nil)
		add(l2, nil)
	case v < 11:
		kind = CrossDrainExact
		add(setter(S, state.All, put(crossBig+uint64(rng.IntN(1000)))))
		add(l1, nil)
		add(setter(S2, state.All, put(f2+uint64(rng.IntN(2)))))
		add(l2, nil)
	case v < 12:
		kind = CrossDrainShort
		add(setter(S, state.All, put(crossBig+uint64(rng.IntN(1000)))))
		add(l1, nil)
		switch rng.IntN(3) {
		case 0:
			add(setter(S2, state.All, put(sub(f2, 1))))
		case 1:
			add(setter(S2, state.All, put(0)))
		default:
			add(setter(S2, state.All, Op{Kind: OpDel, Key: bk}))
		}
		add(l2, nil)
	case v < 14:
		kind = CrossSelfDrain
		add(setter(S, state.All, put(crossBig+uint64(rng.IntN(1000)))))
		if rng.IntN(2) == 0 {
			add(l1, nil)
		}
		add(setter(xf, state.All, put(f2))) // fee of this tx is charged first, then its action overwrites the balance
		add(l2, nil)
	case v < 15:
		if rng.IntN(2) == 0 {
			kind = CrossSelfDrainLow
			add(setter(S, state.All, put(crossBig+uint64(rng.IntN(1000)))))
			add(setter(xf, state.All, put(sub(f2, 1))))
			add(l2, nil)
		} else {
			kind = CrossFundRollback
			add(setter(S, state.All, put(crossBig), Op{Kind: OpFail}))
			add(l1, nil)
		}
	default:
		kind = CrossFundNoAlloc
		add(setter(S, state.Read|state.Write, put(f1)))
		add(l1, nil)
	}
	return seq, kind, firstErr
}

// Interleave merges pat into txs at PRNG-chosen positions keeping the relative order of both.
func Interleave(rng *rand.Rand, txs, pat []*chain.Transaction) []*chain.Transaction {
	out := make([]*chain.Transaction, 0, len(txs)+len(pat))
	i, j := 0, 0
	for i < len(txs) || j < len(pat) {
		left := len(txs) - i + len(pat) - j
		if j < len(pat) && (i == len(txs) || rng.IntN(left) < len(pat)-j) {
			out = append(out, pat[j])
			j++
		} else {
			out = append(out, txs[i])
			i++
		}
	}
	return out
}
