// Package chainfx is the shared chain-level fixture of the verification
// harness: a tiny programmable action (ProgAction), a configurable auth
// (SpyAuth), a strict parser, an in-memory chain fixture wired with the real
// mempool / validity window / workers, and an independent model of block
// execution.
package chainfx

import (
	"bytes"
	"context"
	"encoding/binary"
	"errors"
	"fmt"
	"runtime"
	"sort"
	"sync/atomic"

	"github.com/ava-labs/avalanchego/database"
	"github.com/ava-labs/avalanchego/ids"

	"github.com/ava-labs/hypersdk/chain"
	"github.com/ava-labs/hypersdk/codec"
	"github.com/ava-labs/hypersdk/state"
)

const (
	ProgActionID uint8 = 0xF0
	SpyAuthID    uint8 = 0xF1

	OpGet   byte = 1
	OpPut   byte = 2
	OpDel   byte = 3
	OpFail  byte = 4
	OpYield byte = 5
)

var ErrProgFail = errors.New("prog: explicit failure")

type KeyDecl struct {
	Key  []byte            `json:"key"`
	Perm state.Permissions `json:"perm"`
}

type Op struct {
	Kind byte   `json:"kind"`
	Key  []byte `json:"key,omitempty"`
	Val  []byte `json:"val,omitempty"`
	N    uint32 `json:"n,omitempty"`
}

func (o Op) String() string {
	switch o.Kind {
	case OpGet:
		return fmt.Sprintf("get(%x)", o.Key)
	case OpPut:
		return fmt.Sprintf("put(%x,%dB)", o.Key, len(o.Val))
	case OpDel:
		return fmt.Sprintf("del(%x)", o.Key)
	case OpFail:
		return "fail"
	case OpYield:
		return fmt.Sprintf("yield(%d)", o.N)
	}
	return "?"
}

// ProgAction is a chain.Action that runs a tiny straight-line program against
// the state and returns everything it read.
type ProgAction struct {
	Nonce   uint64    `json:"nonce"`
	Compute uint64    `json:"compute"`
	Start   int64     `json:"start"`
	End     int64     `json:"end"`
	Keys    []KeyDecl `json:"keys"` // strictly ascending by key (canonical)
	Ops     []Op      `json:"ops"`

	// Observer, if set, is called with "start"/"end" around Execute (monitor hook; not encoded).
	Observer func(phase string, a *ProgAction) `json:"-"`
}

var _ chain.Action = (*ProgAction)(nil)

// Executions counts every ProgAction.Execute call in the process (monitor counter).
var Executions atomic.Int64

// GlobalObserver, if set, sees "start"/"end" of every ProgAction.Execute (also of
// actions created by the parser, which carry no per-action Observer).
var GlobalObserver atomic.Pointer[func(phase string, a *ProgAction)]

func (a *ProgAction) Canonicalize() {
	sort.Slice(a.Keys, func(i, j int) bool { return bytes.Compare(a.Keys[i].Key, a.Keys[j].Key) < 0 })
	out := a.Keys[:0]
	for _, k := range a.Keys {
		if n := len(out); n > 0 && bytes.Equal(out[n-1].Key, k.Key) {
			out[n-1].Perm |= k.Perm
			continue
		}
		out = append(out, k)
	}
	a.Keys = out
}

func (*ProgAction) GetTypeID() uint8 { return ProgActionID }

func (a *ProgAction) ValidRange(chain.Rules) (int64, int64) { return a.Start, a.End }

func (a *ProgAction) ComputeUnits(chain.Rules) uint64 { return a.Compute }

func (a *ProgAction) StateKeys(codec.Address, ids.ID) state.Keys {
	ks := make(state.Keys, len(a.Keys))
	for _, k := range a.Keys {
		ks[string(k.Key)] |= k.Perm // deliberately not via Add: invalid keys must reach the chain's own validation
	}
	return ks
}

func (a *ProgAction) Bytes() []byte {
	b := []byte{ProgActionID}
	b = binary.BigEndian.AppendUint64(b, a.Nonce)
	b = binary.BigEndian.AppendUint64(b, a.Compute)
	b = binary.BigEndian.AppendUint64(b, uint64(a.Start))
	b = binary.BigEndian.AppendUint64(b, uint64(a.End))
	b = binary.BigEndian.AppendUint16(b, uint16(len(a.Keys)))
	for _, k := range a.Keys {
		b = binary.BigEndian.AppendUint16(b, uint16(len(k.Key)))
		b = append(b, k.Key...)
		b = append(b, byte(k.Perm))
	}
	b = binary.BigEndian.AppendUint16(b, uint16(len(a.Ops)))
	for _, o := range a.Ops {
		b = append(b, o.Kind)
		b = binary.BigEndian.AppendUint16(b, uint16(len(o.Key)))
		b = append(b, o.Key...)
		b = binary.BigEndian.AppendUint32(b, uint32(len(o.Val)))
		b = append(b, o.Val...)
		b = binary.BigEndian.AppendUint32(b, o.N)
	}
	return b
}

type rd struct {
	b   []byte
	err error
}

func (r *rd) take(n int) []byte {
	if r.err != nil {
		return nil
	}
	if n < 0 || len(r.b) < n {
		r.err = errors.New("prog: short input")
		return nil
	}
	out := r.b[:n]
	r.b = r.b[n:]
	return out
}
func (r *rd) u8() byte {
	b := r.take(1)
	if b == nil {
		return 0
	}
	return b[0]
}
func (r *rd) u16() uint16 {
	b := r.take(2)
	if b == nil {
		return 0
	}
	return binary.BigEndian.Uint16(b)
}
func (r *rd) u32() uint32 {
	b := r.take(4)
	if b == nil {
		return 0
	}
	return binary.BigEndian.Uint32(b)
}
func (r *rd) u64() uint64 {
	b := r.take(8)
	if b == nil {
		return 0
	}
	return binary.BigEndian.Uint64(b)
}

// ParseProg is strict: exactly one encoding per value, no trailing bytes.
func ParseProg(b []byte) (*ProgAction, error) {
	r := &rd{b: b}
	if r.u8() != ProgActionID {
		return nil, errors.New("prog: wrong type id")
	}
	a := &ProgAction{}
	a.Nonce = r.u64()
	a.Compute = r.u64()
	a.Start = int64(r.u64())
	a.End = int64(r.u64())
	nk := int(r.u16())
	for i := 0; i < nk && r.err == nil; i++ {
		kl := int(r.u16())
		k := append([]byte(nil), r.take(kl)...)
		p := state.Permissions(r.u8())
		if n := len(a.Keys); n > 0 && bytes.Compare(a.Keys[n-1].Key, k) >= 0 {
			return nil, errors.New("prog: keys not strictly ascending")
		}
		a.Keys = append(a.Keys, KeyDecl{Key: k, Perm: p})
	}
	no := int(r.u16())
	for i := 0; i < no && r.err == nil; i++ {
		o := Op{Kind: r.u8()}
		kl := int(r.u16())
		o.Key = append([]byte(nil), r.take(kl)...)
		vl := int(r.u32())
		o.Val = append([]byte(nil), r.take(vl)...)
		o.N = r.u32()
		if o.Kind < OpGet || o.Kind > OpYield {
			return nil, errors.New("prog: bad op kind")
		}
		if len(o.Key) == 0 {
			o.Key = nil
		}
		if len(o.Val) == 0 {
			o.Val = nil
		}
		a.Ops = append(a.Ops, o)
	}
	if r.err != nil {
		return nil, r.err
	}
	if len(r.b) != 0 {
		return nil, errors.New("prog: trailing bytes")
	}
	return a, nil
}

// EncodeRead is how a read shows up in the action output.
func EncodeRead(out []byte, v []byte, present bool) []byte {
	if !present {
		return append(out, 0)
	}
	out = append(out, 1)
	out = binary.BigEndian.AppendUint32(out, uint32(len(v)))
	return append(out, v...)
}

func (a *ProgAction) Execute(ctx context.Context, _ chain.Rules, mu state.Mutable, _ int64, _ codec.Address, _ ids.ID) ([]byte, error) {
	Executions.Add(1)
	if a.Observer != nil {
		a.Observer("start", a)
		defer a.Observer("end", a)
	}
	if g := GlobalObserver.Load(); g != nil {
		(*g)("start", a)
		defer (*g)("end", a)
	}
	out := []byte{}
	for _, o := range a.Ops {
		switch o.Kind {
		case OpGet:
			v, err := mu.GetValue(ctx, o.Key)
			switch {
			case errors.Is(err, database.ErrNotFound):
				out = EncodeRead(out, nil, false)
			case err != nil:
				return nil, err
			default:
				out = EncodeRead(out, v, true)
			}
		case OpPut:
			if err := mu.Insert(ctx, o.Key, o.Val); err != nil {
				return nil, err
			}
		case OpDel:
			if err := mu.Remove(ctx, o.Key); err != nil {
				return nil, err
			}
		case OpFail:
			return nil, ErrProgFail
		case OpYield:
			for i := uint32(0); i < o.N; i++ {
				runtime.Gosched()
			}
		}
	}
	return out, nil
}

// ---- SpyAuth ----

type SpyAuth struct {
	ActorAddr   codec.Address `json:"actor"`
	SponsorAddr codec.Address `json:"sponsor"`
	Compute     uint64        `json:"compute"`
	Start       int64         `json:"start"`
	End         int64         `json:"end"`
	OK          bool          `json:"ok"`
	Pad         []byte        `json:"pad,omitempty"`
}

var _ chain.Auth = (*SpyAuth)(nil)

var ErrSpyAuth = errors.New("spy auth: invalid signature")

// SpyVerifies counts SpyAuth.Verify calls (monitor counter).
var SpyVerifies atomic.Int64

func (*SpyAuth) GetTypeID() uint8                        { return SpyAuthID }
func (s *SpyAuth) ValidRange(chain.Rules) (int64, int64) { return s.Start, s.End }
func (s *SpyAuth) ComputeUnits(chain.Rules) uint64       { return s.Compute }
func (s *SpyAuth) Actor() codec.Address                  { return s.ActorAddr }
func (s *SpyAuth) Sponsor() codec.Address                { return s.SponsorAddr }
func (s *SpyAuth) Verify(context.Context, []byte) error {
	SpyVerifies.Add(1)
	if !s.OK {
		return ErrSpyAuth
	}
	return nil
}

func (s *SpyAuth) Bytes() []byte {
	b := []byte{SpyAuthID}
	b = append(b, s.ActorAddr[:]...)
	b = append(b, s.SponsorAddr[:]...)
	b = binary.BigEndian.AppendUint64(b, s.Compute)
	b = binary.BigEndian.AppendUint64(b, uint64(s.Start))
	b = binary.BigEndian.AppendUint64(b, uint64(s.End))
	if s.OK {
		b = append(b, 1)
	} else {
		b = append(b, 0)
	}
	b = binary.BigEndian.AppendUint16(b, uint16(len(s.Pad)))
	return append(b, s.Pad...)
}

func ParseSpy(b []byte) (*SpyAuth, error) {
	r := &rd{b: b}
	if r.u8() != SpyAuthID {
		return nil, errors.New("spy: wrong type id")
	}
	s := &SpyAuth{}
	copy(s.ActorAddr[:], r.take(codec.AddressLen))
	copy(s.SponsorAddr[:], r.take(codec.AddressLen))
	s.Compute = r.u64()
	s.Start = int64(r.u64())
	s.End = int64(r.u64())
	switch r.u8() {
	case 0:
	case 1:
		s.OK = true
	default:
		return nil, errors.New("spy: bad bool")
	}
	n := int(r.u16())
	s.Pad = append([]byte(nil), r.take(n)...)
	if len(s.Pad) == 0 {
		s.Pad = nil
	}
	if r.err != nil {
		return nil, r.err
	}
	if len(r.b) != 0 {
		return nil, errors.New("spy: trailing bytes")
	}
	return s, nil
}

// SpyFactory signs with a fixed SpyAuth template.
type SpyFactory struct{ Auth SpyAuth }

var _ chain.AuthFactory = (*SpyFactory)(nil)

func (f *SpyFactory) Sign([]byte) (chain.Auth, error) { a := f.Auth; return &a, nil }
func (f *SpyFactory) MaxUnits() (uint64, uint64) {
	return uint64(len(f.Auth.Bytes())), f.Auth.Compute
}
func (f *SpyFactory) Address() codec.Address { return f.Auth.ActorAddr }

// SpyAddr returns a deterministic address with the spy type id.
func SpyAddr(i int) codec.Address {
	var a codec.Address
	a[0] = SpyAuthID
	binary.BigEndian.PutUint32(a[1:], uint32(i)+1)
	a[codec.AddressLen-1] = 0xAA
	return a
}

// Parser parses ProgAction / SpyAuth strictly and delegates everything else.
type Parser struct {
	InnerAction func([]byte) (chain.Action, error)
	InnerAuth   func([]byte) (chain.Auth, error)
}

var _ chain.Parser = (*Parser)(nil)

func (p *Parser) ParseAction(b []byte) (chain.Action, error) {
	if len(b) > 0 && b[0] == ProgActionID {
		return ParseProg(b)
	}
	if p.InnerAction != nil {
		return p.InnerAction(b)
	}
	return nil, errors.New("parser: unknown action type")
}

func (p *Parser) ParseAuth(b []byte) (chain.Auth, error) {
	if len(b) > 0 && b[0] == SpyAuthID {
		return ParseSpy(b)
	}
	if p.InnerAuth != nil {
		return p.InnerAuth(b)
	}
	return nil, errors.New("parser: unknown auth type")
}
