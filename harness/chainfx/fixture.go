package chainfx

import (
	"context"
	"errors"
	"fmt"
	"sync"

	"github.com/ava-labs/avalanchego/database"
	"github.com/ava-labs/avalanchego/database/memdb"
	"github.com/ava-labs/avalanchego/ids"
	"github.com/ava-labs/avalanchego/trace"
	"github.com/ava-labs/avalanchego/utils/logging"
	"github.com/ava-labs/avalanchego/utils/maybe"
	"github.com/ava-labs/avalanchego/x/merkledb"
	"github.com/prometheus/client_golang/prometheus"

	"github.com/ava-labs/hypersdk/auth"
	"github.com/ava-labs/hypersdk/chain"
	"github.com/ava-labs/hypersdk/codec"
	"github.com/ava-labs/hypersdk/genesis"
	"github.com/ava-labs/hypersdk/internal/mempool"
	"github.com/ava-labs/hypersdk/internal/validitywindow"
	"github.com/ava-labs/hypersdk/internal/workers"
	"github.com/ava-labs/hypersdk/state/balance"
	"github.com/ava-labs/hypersdk/state/metadata"
)

// Index is the block store the validity window walks.
type Index struct {
	mu sync.RWMutex
	m  map[ids.ID]*chain.ExecutionBlock
}

func NewIndex() *Index { return &Index{m: map[ids.ID]*chain.ExecutionBlock{}} }

func (i *Index) Put(b *chain.ExecutionBlock) {
	i.mu.Lock()
	i.m[b.GetID()] = b
	i.mu.Unlock()
}

func (i *Index) Del(id ids.ID) {
	i.mu.Lock()
	delete(i.m, id)
	i.mu.Unlock()
}

func (i *Index) GetExecutionBlock(_ context.Context, id ids.ID) (validitywindow.ExecutionBlock[*chain.Transaction], error) {
	i.mu.RLock()
	defer i.mu.RUnlock()
	b, ok := i.m[id]
	if !ok {
		return nil, database.ErrNotFound
	}
	return b, nil
}

// Options configures a fixture.
type Options struct {
	Rules      *genesis.Rules              // nil = defaults with ChainID {5}
	Alloc      []*genesis.CustomAllocation // genesis balances
	BH         chain.BalanceHandler        // nil = balance.NewPrefixBalanceHandler({0})
	ExtraState map[string][]byte           // committed to the db before genesis (arbitrary parent state)
	Parser     *Parser                     // nil = ProgAction/SpyAuth + the three real auth schemes
}

// Fixture is one in-memory chain: merkledb + genesis + shared block index.
type Fixture struct {
	Ctx     context.Context
	DB      merkledb.MerkleDB
	Rules   *genesis.Rules
	RF      *genesis.ImmutableRuleFactory
	MM      chain.MetadataManager
	BH      chain.BalanceHandler
	Parser  *Parser
	Index   *Index
	Genesis *chain.ExecutionBlock
	Tracer  trace.Tracer
}

func MerkleConfig() merkledb.Config {
	return merkledb.Config{
		BranchFactor: merkledb.BranchFactor16, Tracer: trace.Noop,
		HistoryLength: 256, ValueNodeCacheSize: 1 << 20, IntermediateNodeCacheSize: 1 << 20,
		IntermediateWriteBufferSize: 1 << 20, IntermediateWriteBatchSize: 1 << 16,
	}
}

// RealAuthParser parses the three built-in auth schemes.
func RealAuthParser(b []byte) (chain.Auth, error) {
	if len(b) == 0 {
		return nil, errors.New("empty auth")
	}
	switch b[0] {
	case auth.ED25519ID:
		return auth.UnmarshalED25519(b)
	case auth.SECP256R1ID:
		return auth.UnmarshalSECP256R1(b)
	case auth.BLSID:
		return auth.UnmarshalBLS(b)
	}
	return nil, fmt.Errorf("unknown auth type %d", b[0])
}

func New(opts Options) (*Fixture, error) {
	ctx := context.Background()
	f := &Fixture{Ctx: ctx, Tracer: trace.Noop, Index: NewIndex()}
	db, err := merkledb.New(ctx, memdb.New(), MerkleConfig())
	if err != nil {
		return nil, err
	}
	f.DB = db
	if len(opts.ExtraState) > 0 {
		ops := map[string]maybe.Maybe[[]byte]{}
		for k, v := range opts.ExtraState {
			ops[k] = maybe.Some(v)
		}
		v, err := db.NewView(ctx, merkledb.ViewChanges{MapOps: ops})
		if err != nil {
			return nil, err
		}
		if err := v.CommitToDB(ctx); err != nil {
			return nil, err
		}
	}
	f.Rules = opts.Rules
	if f.Rules == nil {
		f.Rules = genesis.NewDefaultRules()
		f.Rules.ChainID = ids.ID{5}
	}
	f.RF = &genesis.ImmutableRuleFactory{Rules: f.Rules}
	f.BH = opts.BH
	if f.BH == nil {
		f.BH = balance.NewPrefixBalanceHandler([]byte{0})
	}
	f.MM = metadata.NewDefaultManager()
	f.Parser = opts.Parser
	if f.Parser == nil {
		f.Parser = &Parser{InnerAuth: RealAuthParser}
	}
	g := genesis.NewDefaultGenesis(opts.Alloc)
	g.Rules = f.Rules
	gblk, gview, err := chain.NewGenesisCommit(ctx, db, g, f.MM, f.BH, f.RF, f.Tracer, logging.NoLog{})
	if err != nil {
		return nil, err
	}
	if err := gview.CommitToDB(ctx); err != nil {
		return nil, err
	}
	f.Genesis = gblk
	f.Index.Put(gblk)
	return f, nil
}

// ChainCfg is the configuration dimension of C01/C02/C16.
type ChainCfg struct {
	Cores        int
	Fetch        int
	SigWorkers   int // 0 = serial workers
	Mempool      chain.Mempool
	Engines      chain.AuthEngines     // nil = auth.DefaultEngines()
	Config       *chain.Config         // overrides everything but cores/fetch when set
	LastAccepted *chain.ExecutionBlock // nil = genesis (validity window start)
}

// Inst is one chain.Chain instance over the fixture.
type Inst struct {
	Chain   *chain.Chain
	VW      *validitywindow.TimeValidityWindow[*chain.Transaction]
	Workers workers.Workers
	Mempool chain.Mempool
	Cfg     ChainCfg
}

func (i *Inst) Close() { i.Workers.Stop() }

func (f *Fixture) NewChain(cfg ChainCfg) (*Inst, error) {
	if cfg.Cores <= 0 {
		cfg.Cores = 1
	}
	if cfg.Fetch <= 0 {
		cfg.Fetch = 1
	}
	last := cfg.LastAccepted
	if last == nil {
		last = f.Genesis
	}
	vw, err := validitywindow.NewTimeValidityWindow[*chain.Transaction](f.Ctx, logging.NoLog{}, f.Tracer, f.Index, last, func(int64) int64 { return f.Rules.ValidityWindow })
	if err != nil {
		return nil, err
	}
	var w workers.Workers
	if cfg.SigWorkers <= 0 {
		w = workers.NewSerial()
	} else {
		w = workers.NewParallel(cfg.SigWorkers, 10)
	}
	mp := cfg.Mempool
	if mp == nil {
		mp = mempool.New[*chain.Transaction](f.Tracer, 100_000, 100_000)
	}
	cc := chain.NewDefaultConfig()
	if cfg.Config != nil {
		cc = *cfg.Config
	}
	cc.TransactionExecutionCores = cfg.Cores
	cc.StateFetchConcurrency = cfg.Fetch
	var eng chain.AuthEngines = auth.DefaultEngines()
	if cfg.Engines != nil {
		eng = cfg.Engines
	}
	c, err := chain.NewChain(f.Tracer, prometheus.NewRegistry(), mp, logging.NoLog{}, f.RF, f.MM, f.BH, w, eng, chain.NewBlockParser(f.Tracer, f.Parser), vw, cc)
	if err != nil {
		w.Stop()
		return nil, err
	}
	return &Inst{Chain: c, VW: vw, Workers: w, Mempool: mp, Cfg: cfg}, nil
}

// Block assembles a child of parent over parentView.
func (f *Fixture) Block(parent *chain.ExecutionBlock, parentView merkledb.View, ts int64, txs []*chain.Transaction) (*chain.ExecutionBlock, error) {
	root, err := parentView.GetMerkleRoot(f.Ctx)
	if err != nil {
		return nil, err
	}
	sb, err := chain.NewStatelessBlock(parent.GetID(), ts, parent.Hght+1, txs, root, nil)
	if err != nil {
		return nil, err
	}
	return chain.NewExecutionBlock(sb), nil
}

// Reparse round-trips a block through its bytes (fresh caches, as a peer would see it).
func (f *Fixture) Reparse(b *chain.ExecutionBlock) (*chain.ExecutionBlock, error) {
	sb, err := chain.UnmarshalBlock(b.GetBytes(), f.Parser)
	if err != nil {
		return nil, err
	}
	return chain.NewExecutionBlock(sb), nil
}

// Tx signs a transaction with explicit base fields.
func Tx(base chain.Base, actions []chain.Action, af chain.AuthFactory) (*chain.Transaction, error) {
	td := chain.NewTxData(base, actions)
	return td.Sign(af)
}

// ReadKeys reads the given keys from a view: present keys map to their value.
func ReadKeys(ctx context.Context, v merkledb.View, keys []string) (map[string][]byte, error) {
	out := map[string][]byte{}
	for _, k := range keys {
		b, err := v.GetValue(ctx, []byte(k))
		if errors.Is(err, database.ErrNotFound) {
			continue
		}
		if err != nil {
			return nil, err
		}
		out[k] = b
	}
	return out, nil
}

// BalanceKey returns the state key holding addr's balance for the prefix handler.
func (f *Fixture) BalanceKey(addr codec.Address) string {
	if p, ok := f.BH.(*balance.PrefixBalanceHandler); ok {
		return string(p.BalanceKey(addr))
	}
	for k := range f.BH.SponsorStateKeys(addr) {
		return k
	}
	return ""
}
