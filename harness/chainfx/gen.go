package chainfx

import (
	"encoding/binary"
	"fmt"
	"math/rand/v2"

	"github.com/ava-labs/avalanchego/ids"

	"github.com/ava-labs/hypersdk/auth"
	"github.com/ava-labs/hypersdk/chain"
	"github.com/ava-labs/hypersdk/codec"
	"github.com/ava-labs/hypersdk/crypto/ed25519"
	"github.com/ava-labs/hypersdk/fees"
	"github.com/ava-labs/hypersdk/genesis"
	"github.com/ava-labs/hypersdk/keys"
	"github.com/ava-labs/hypersdk/state"
)

// World is the closed universe a generated workload lives in.
type World struct {
	Keys      [][]byte            // state keys (with chunk suffix)
	Factories []chain.AuthFactory // sponsors
	Addrs     []codec.Address
	Balances  []uint64
	Extra     map[string][]byte // initial values of some Keys
	Rules     *genesis.Rules
	nonce     uint64

	// sponsors WITHOUT a balance entry in the genesis state (see cross.go); never picked by GenTx
	Fresh          []codec.Address
	FreshFactories []chain.AuthFactory
}

// LooseRules returns rules whose block limits never bind (properties about the
// limits use their own rules).
func LooseRules() *genesis.Rules {
	r := genesis.NewDefaultRules()
	r.ChainID = ids.ID{5}
	r.MaxBlockUnits = fees.Dimensions{1 << 40, 1 << 40, 1 << 40, 1 << 40, 1 << 40}
	r.WindowTargetUnits = fees.Dimensions{1 << 39, 1 << 39, 1 << 39, 1 << 39, 1 << 39}
	r.MaxActionsPerTx = 16
	r.MinBlockGap = 100
	r.MinEmptyBlockGap = 750
	return r
}

// ed25519FromSeed derives a deterministic key from the PRNG.
func ed25519FromSeed(rng *rand.Rand) ed25519.PrivateKey {
	var seed [32]byte
	for i := range seed {
		seed[i] = byte(rng.UintN(256))
	}
	// crypto/ed25519 private key = seed || public; derive through the std lib layout used by hypersdk
	return ed25519.PrivateKey(stdEd25519FromSeed(seed[:]))
}

// NewWorld draws a world: nKeys state keys (some sharing a prefix and differing
// only in the chunk suffix), nSponsors sponsors (spy auths, plus one real
// ed25519 signer when realSigner), balances mostly large.
func NewWorld(rng *rand.Rand, nKeys, nSponsors int, realSigner bool, rules *genesis.Rules) *World {
	w := &World{Extra: map[string][]byte{}, Rules: rules}
	for i := 0; i < nKeys; i++ {
		name := []byte{0x10, byte(i / 2)} // pairs share the prefix
		suffix := uint16(1 + i%2)         // and differ only in the chunk suffix
		if rng.IntN(8) == 0 {
			suffix = uint16(rng.IntN(4))
		}
		w.Keys = append(w.Keys, keys.EncodeChunks(name, suffix))
	}
	for i := 0; i < nSponsors; i++ {
		a := SpyAddr(i)
		actor := a
		if rng.IntN(3) == 0 {
			// sponsored transactions: the fee payer is not the actor (the actor owns no balance)
			actor = SpyAddr(1000 + i)
		}
		w.Factories = append(w.Factories, &SpyFactory{Auth: SpyAuth{ActorAddr: actor, SponsorAddr: a, Compute: uint64(rng.IntN(5)), Start: -1, End: -1, OK: true}})
		w.Addrs = append(w.Addrs, a)
		w.Balances = append(w.Balances, 1<<40+uint64(rng.IntN(1000)))
	}
	if realSigner {
		f := auth.NewED25519Factory(ed25519FromSeed(rng))
		w.Factories = append(w.Factories, f)
		w.Addrs = append(w.Addrs, f.Address())
		w.Balances = append(w.Balances, 1<<40)
	}
	for _, k := range w.Keys {
		if rng.IntN(2) == 0 {
			w.Extra[string(k)] = w.Value(rng, k, true)
		}
	}
	return w
}

// Value draws a value; fitting=true keeps it within the key's chunk suffix.
func (w *World) Value(rng *rand.Rand, key []byte, fitting bool) []byte {
	maxChunks, _ := keys.MaxChunks(key)
	var n int
	switch {
	case fitting && maxChunks == 0:
		n = 0
	case fitting:
		n = rng.IntN(int(maxChunks)*64 - 1 + 1) // 0 .. chunks*64-1
		if rng.IntN(3) == 0 {
			n = rng.IntN(8)
		}
	default:
		n = int(maxChunks)*64 + rng.IntN(3) // one chunk too many
	}
	v := make([]byte, n)
	for i := range v {
		v[i] = byte('a' + rng.IntN(4))
	}
	return v
}

func (w *World) Alloc() []*genesis.CustomAllocation {
	var out []*genesis.CustomAllocation
	for i, a := range w.Addrs {
		out = append(out, &genesis.CustomAllocation{Address: a, Balance: w.Balances[i]})
	}
	return out
}

// Fixture builds the chain fixture of this world.
func (w *World) Fixture() (*Fixture, error) {
	return New(Options{Rules: w.Rules, Alloc: w.Alloc(), ExtraState: w.Extra})
}

// ModelAt returns the reference model initialised to the genesis state.
func (w *World) Model() *Model {
	m := &Model{State: map[string][]byte{}, Rules: w.Rules, BalPrefix: []byte{0}}
	for k, v := range w.Extra {
		m.State[k] = v
	}
	for i, a := range w.Addrs {
		// genesis sums allocations per address through AddBalance
		m.State[m.balKey(a)] = binary.BigEndian.AppendUint64(nil, w.Balances[i])
	}
	return m
}

// AllKeys lists every key a workload can touch (state keys + balance keys).
func (w *World) AllKeys() []string {
	m := &Model{BalPrefix: []byte{0}}
	var out []string
	for _, k := range w.Keys {
		out = append(out, string(k))
	}
	for _, a := range w.Addrs {
		out = append(out, m.balKey(a))
	}
	for _, a := range w.Fresh {
		out = append(out, m.balKey(a))
	}
	return out
}

var permPool = []state.Permissions{state.Read, state.Write, state.Allocate, state.All, state.All, state.Write | state.Allocate, state.None, state.Read}

// GenCfg tunes the transaction generator.
type GenCfg struct {
	MaxActions  int
	MaxOps      int
	PUndeclared float64 // op on a key not declared by this action
	PFail       float64 // explicit failure op
	POversize   float64 // put of a value one chunk too large
	PBalanceKey float64 // op touches a sponsor balance key
	PYield      float64
	ExpirySlack int // expiry in [ts .. ts+slack seconds], rounded to the second
	SponsorPick func(rng *rand.Rand) int
}

func DefaultGen() GenCfg {
	return GenCfg{MaxActions: 4, MaxOps: 5, PUndeclared: 0.08, PFail: 0.06, POversize: 0.04, PBalanceKey: 0.05, PYield: 0.2, ExpirySlack: 30}
}

// GenAction draws one program.
func (w *World) GenAction(rng *rand.Rand, g GenCfg) *ProgAction {
	w.nonce++
	a := &ProgAction{Nonce: w.nonce, Compute: uint64(rng.IntN(4)), Start: -1, End: -1}
	nd := rng.IntN(4)
	if rng.IntN(6) == 0 {
		nd = rng.IntN(len(w.Keys) + 1)
	}
	declared := [][]byte{}
	for i := 0; i < nd; i++ {
		k := w.Keys[rng.IntN(len(w.Keys))]
		if rng.Float64() < g.PBalanceKey {
			m := &Model{BalPrefix: []byte{0}}
			k = []byte(m.balKey(w.Addrs[rng.IntN(len(w.Addrs))]))
		}
		a.Keys = append(a.Keys, KeyDecl{Key: k, Perm: permPool[rng.IntN(len(permPool))]})
		declared = append(declared, k)
	}
	a.Canonicalize()
	no := rng.IntN(g.MaxOps + 1)
	for i := 0; i < no; i++ {
		var k []byte
		if len(declared) > 0 && rng.Float64() >= g.PUndeclared {
			k = declared[rng.IntN(len(declared))]
		} else {
			k = w.Keys[rng.IntN(len(w.Keys))]
		}
		x := rng.Float64()
		switch {
		case x < g.PFail:
			a.Ops = append(a.Ops, Op{Kind: OpFail})
		case x < g.PFail+g.PYield:
			a.Ops = append(a.Ops, Op{Kind: OpYield, N: uint32(rng.IntN(30))})
		case x < g.PFail+g.PYield+0.30:
			a.Ops = append(a.Ops, Op{Kind: OpGet, Key: k})
		case x < g.PFail+g.PYield+0.60:
			v := w.Value(rng, k, rng.Float64() >= g.POversize)
			if len(k) == 36 && k[0] == 0 { // balance key: keep it parseable most of the time
				v = binary.BigEndian.AppendUint64(nil, uint64(rng.IntN(1<<30)))
			}
			if len(v) == 0 {
				v = nil
			}
			a.Ops = append(a.Ops, Op{Kind: OpPut, Key: k, Val: v})
		default:
			a.Ops = append(a.Ops, Op{Kind: OpDel, Key: k})
		}
	}
	return a
}

// GenTx draws one signed transaction valid at block time ts.
func (w *World) GenTx(rng *rand.Rand, g GenCfg, ts int64) (*chain.Transaction, error) {
	na := 1 + rng.IntN(g.MaxActions)
	var actions []chain.Action
	for i := 0; i < na; i++ {
		actions = append(actions, w.GenAction(rng, g))
	}
	si := rng.IntN(len(w.Factories))
	if g.SponsorPick != nil {
		si = g.SponsorPick(rng)
	}
	expiry := (ts/1000 + 1 + int64(rng.IntN(g.ExpirySlack+1))) * 1000
	if expiry-ts > w.Rules.ValidityWindow {
		expiry = (ts/1000 + 1) * 1000
	}
	base := chain.Base{Timestamp: expiry, ChainID: w.Rules.ChainID, MaxFee: 1 << 50}
	return Tx(base, actions, w.Factories[si])
}

// DescribeTx renders a transaction for evidence samples / witnesses.
func DescribeTx(tx *chain.Transaction) string {
	sp := tx.Auth.Sponsor()
	s := fmt.Sprintf("tx %s sponsor=%x.. expiry=%d:", tx.GetID(), sp[:5], tx.Base.Timestamp)
	for _, a := range tx.Actions {
		if pa, ok := a.(*ProgAction); ok {
			s += " ["
			for _, d := range pa.Keys {
				s += fmt.Sprintf("%x:%s ", d.Key, d.Perm)
			}
			s += "|"
			for _, o := range pa.Ops {
				s += " " + o.String()
			}
			s += "]"
		} else {
			s += fmt.Sprintf(" [%T]", a)
		}
	}
	return s
}
