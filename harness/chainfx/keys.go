package chainfx

import (
	stded "crypto/ed25519"
	"math/rand/v2"

	"github.com/ava-labs/hypersdk/crypto/ed25519"
)

func stdEd25519FromSeed(seed []byte) []byte { return stded.NewKeyFromSeed(seed) }

// Ed25519Key derives a deterministic ed25519 key from the PRNG.
func Ed25519Key(rng *rand.Rand) ed25519.PrivateKey { return ed25519FromSeed(rng) }
