package chainfx

import (
	"bytes"
	"encoding/binary"
	"fmt"
	"math/big"

	"github.com/ava-labs/hypersdk/chain"
	"github.com/ava-labs/hypersdk/fees"
	"github.com/ava-labs/hypersdk/genesis"
)

// This file is the independent reference model of block execution. It shares
// no code with tstate / chain: state is a plain map, arithmetic is math/big.

var maxU64 = new(big.Int).SetUint64(^uint64(0))

// ModelResult is the model's prediction for one transaction.
type ModelResult struct {
	Success bool
	Outputs [][]byte
	Units   [5]uint64
	Fee     uint64
}

// Model is the reference state machine.
type Model struct {
	State     map[string][]byte
	Rules     *genesis.Rules
	BalPrefix []byte // balance key = prefix | addr | 0x0001, value = 8-byte big-endian
}

func (m *Model) Clone() *Model {
	n := &Model{State: make(map[string][]byte, len(m.State)), Rules: m.Rules, BalPrefix: m.BalPrefix}
	for k, v := range m.State {
		n.State[k] = v
	}
	return n
}

func (m *Model) balKey(addr [33]byte) string {
	k := append([]byte{}, m.BalPrefix...)
	k = append(k, addr[:]...)
	return string(append(k, 0, 1))
}

// chunks of a value: 0 for empty, else len/64+1; ok=false beyond 16 bits.
func modelChunks(n int) (int, bool) {
	if n == 0 {
		return 0, true
	}
	c := n/64 + 1
	return c, c <= 0xFFFF
}

func keySuffix(k string) (int, bool) {
	if len(k) < 2 {
		return 0, false
	}
	return int(k[len(k)-2])<<8 | int(k[len(k)-1]), true
}

const (
	pRead  = 1
	pAlloc = 2 | 1
	pWrite = 4 | 1
)

// TxScope returns the union of declared permissions (actions + sponsor balance key).
// ok=false when some declared key is invalid (< 2 bytes).
func (m *Model) TxScope(tx *chain.Transaction) (map[string]byte, bool) {
	scope := map[string]byte{}
	for _, a := range tx.Actions {
		pa, isProg := a.(*ProgAction)
		if !isProg {
			for k, p := range a.StateKeys(tx.Auth.Actor(), chain.CreateActionID(tx.GetID(), 0)) {
				if len(k) < 2 {
					return nil, false
				}
				scope[k] |= byte(p)
			}
			continue
		}
		for _, d := range pa.Keys {
			if len(d.Key) < 2 {
				return nil, false
			}
			scope[string(d.Key)] |= byte(d.Perm)
		}
	}
	scope[m.balKey(tx.Auth.Sponsor())] |= pRead | pWrite
	return scope, true
}

// Units recomputes the five dimensions with big integers. ok=false on overflow or invalid key.
func (m *Model) Units(tx *chain.Transaction) ([5]uint64, bool) {
	r := m.Rules
	scope, ok := m.TxScope(tx)
	if !ok {
		return [5]uint64{}, false
	}
	compute := new(big.Int).SetUint64(r.BaseComputeUnits)
	for _, a := range tx.Actions {
		compute.Add(compute, new(big.Int).SetUint64(a.ComputeUnits(r)))
	}
	compute.Add(compute, new(big.Int).SetUint64(tx.Auth.ComputeUnits(r)))
	reads, allocs, writes := new(big.Int), new(big.Int), new(big.Int)
	for k := range scope {
		suf, _ := keySuffix(k)
		s := big.NewInt(int64(suf))
		reads.Add(reads, new(big.Int).SetUint64(r.StorageKeyReadUnits))
		reads.Add(reads, new(big.Int).Mul(s, new(big.Int).SetUint64(r.StorageValueReadUnits)))
		allocs.Add(allocs, new(big.Int).SetUint64(r.StorageKeyAllocateUnits))
		allocs.Add(allocs, new(big.Int).Mul(s, new(big.Int).SetUint64(r.StorageValueAllocateUnits)))
		writes.Add(writes, new(big.Int).SetUint64(r.StorageKeyWriteUnits))
		writes.Add(writes, new(big.Int).Mul(s, new(big.Int).SetUint64(r.StorageValueWriteUnits)))
	}
	var out [5]uint64
	out[0] = uint64(len(tx.Bytes()))
	for i, v := range []*big.Int{compute, reads, allocs, writes} {
		if v.Cmp(maxU64) > 0 {
			return [5]uint64{}, false
		}
		out[i+1] = v.Uint64()
	}
	return out, true
}

// Fee = sum price*units; ok=false on overflow.
func ModelFee(prices fees.Dimensions, units [5]uint64) (uint64, bool) {
	sum := new(big.Int)
	for i := 0; i < 5; i++ {
		sum.Add(sum, new(big.Int).Mul(new(big.Int).SetUint64(prices[i]), new(big.Int).SetUint64(units[i])))
	}
	if sum.Cmp(maxU64) > 0 {
		return 0, false
	}
	return sum.Uint64(), true
}

func (m *Model) balance(k string) (uint64, error) {
	v, ok := m.State[k]
	if !ok {
		return 0, nil
	}
	if len(v) != 8 {
		return 0, fmt.Errorf("model: balance value of %d bytes", len(v))
	}
	return binary.BigEndian.Uint64(v), nil
}

// ApplyTx applies one transaction to the model. blockErr != "" means the
// transaction cannot be in a valid block at these prices (and the model state
// is unchanged).
func (m *Model) ApplyTx(tx *chain.Transaction, prices fees.Dimensions) (ModelResult, string) {
	scope, ok := m.TxScope(tx)
	if !ok {
		return ModelResult{}, "invalid declared key"
	}
	units, ok := m.Units(tx)
	if !ok {
		return ModelResult{}, "units overflow"
	}
	fee, ok := ModelFee(prices, units)
	if !ok {
		return ModelResult{}, "fee overflow"
	}
	bk := m.balKey(tx.Auth.Sponsor())
	bal, err := m.balance(bk)
	if err != nil {
		return ModelResult{}, err.Error()
	}
	if bal < fee {
		return ModelResult{}, "insufficient balance for fee"
	}
	// fee is charged first and stays whatever happens next
	m.State[bk] = binary.BigEndian.AppendUint64(nil, bal-fee)
	snapshot := make(map[string][]byte, len(m.State))
	for k, v := range m.State {
		snapshot[k] = v
	}
	res := ModelResult{Success: true, Units: units, Fee: fee, Outputs: [][]byte{}}
	for _, a := range tx.Actions {
		pa, isProg := a.(*ProgAction)
		if !isProg {
			return ModelResult{}, "model: unsupported action type"
		}
		out, ok := m.runProg(pa, scope)
		if !ok {
			m.State = snapshot
			res.Success = false
			return res, ""
		}
		res.Outputs = append(res.Outputs, out)
	}
	return res, ""
}

func (m *Model) runProg(a *ProgAction, scope map[string]byte) ([]byte, bool) {
	has := func(k []byte, need byte) bool { return need&^scope[string(k)] == 0 }
	out := []byte{}
	for _, o := range a.Ops {
		switch o.Kind {
		case OpGet:
			if !has(o.Key, pRead) {
				return nil, false
			}
			v, ok := m.State[string(o.Key)]
			out = EncodeRead(out, v, ok)
		case OpPut:
			if !has(o.Key, pWrite) {
				return nil, false
			}
			suf, ok := keySuffix(string(o.Key))
			if !ok {
				return nil, false
			}
			c, ok := modelChunks(len(o.Val))
			if !ok || c > suf {
				return nil, false
			}
			cur, exists := m.State[string(o.Key)]
			if !exists && !has(o.Key, pAlloc) {
				return nil, false
			}
			_ = cur
			v := o.Val
			if v == nil {
				v = []byte{}
			}
			m.State[string(o.Key)] = v
		case OpDel:
			if !has(o.Key, pWrite) {
				return nil, false
			}
			delete(m.State, string(o.Key))
		case OpFail:
			return nil, false
		case OpYield:
		}
	}
	return out, true
}

// BlockOutcome is the model's prediction for a block.
type BlockOutcome struct {
	Invalid  string // non-empty: the block must be rejected
	Results  []ModelResult
	Consumed [5]uint64
}

// ApplyBlock applies txs in order at the given unit prices; on an invalid
// block the model state is left as before the block.
func (m *Model) ApplyBlock(txs []*chain.Transaction, prices fees.Dimensions) BlockOutcome {
	saved := m.Clone().State
	var out BlockOutcome
	maxUnits := m.Rules.MaxBlockUnits
	for i, tx := range txs {
		units, ok := m.Units(tx)
		if !ok {
			m.State = saved
			return BlockOutcome{Invalid: fmt.Sprintf("tx %d: units overflow / invalid key", i)}
		}
		for d := 0; d < 5; d++ {
			s := new(big.Int).Add(new(big.Int).SetUint64(out.Consumed[d]), new(big.Int).SetUint64(units[d]))
			if s.Cmp(new(big.Int).SetUint64(maxUnits[d])) > 0 {
				m.State = saved
				return BlockOutcome{Invalid: fmt.Sprintf("tx %d: block units exceed max in dimension %d", i, d)}
			}
		}
		for d := 0; d < 5; d++ {
			out.Consumed[d] += units[d]
		}
		res, bad := m.ApplyTx(tx, prices)
		if bad != "" {
			m.State = saved
			return BlockOutcome{Invalid: fmt.Sprintf("tx %d: %s", i, bad)}
		}
		out.Results = append(out.Results, res)
	}
	return out
}

// CompareResult describes the first difference between a real result and the model's ("" = equal).
func CompareResult(got *chain.Result, want ModelResult) string {
	if got == nil {
		return "nil result"
	}
	if got.Success != want.Success {
		return fmt.Sprintf("success=%v want %v (error %q)", got.Success, want.Success, got.Error)
	}
	if got.Fee != want.Fee {
		return fmt.Sprintf("fee=%d want %d", got.Fee, want.Fee)
	}
	if [5]uint64(got.Units) != want.Units {
		return fmt.Sprintf("units=%v want %v", got.Units, want.Units)
	}
	if len(got.Outputs) != len(want.Outputs) {
		return fmt.Sprintf("%d outputs want %d", len(got.Outputs), len(want.Outputs))
	}
	for i := range got.Outputs {
		if !bytes.Equal(got.Outputs[i], want.Outputs[i]) {
			return fmt.Sprintf("output %d = %x want %x", i, got.Outputs[i], want.Outputs[i])
		}
	}
	if want.Success && len(got.Error) != 0 {
		return fmt.Sprintf("successful result carries error %q", got.Error)
	}
	return ""
}
