package purex

import (
	"encoding/json"
	"fmt"
	"math/big"
	"sort"
	"testing"

	"github.com/ava-labs/hypersdk/fees"
	"github.com/ava-labs/hypersdk/zzverif/kit"
)

type c33Case struct {
	Dims  [][5]uint64 `json:"dimensions"`
	Limit [5]uint64   `json:"limit"`
	Note  string      `json:"note,omitempty"`
}

func c33Big(v uint64) *big.Int { return new(big.Int).SetUint64(v) }

// c33Fits: acc + item <= limit in every dimension (exact arithmetic; a sum beyond 2^64-1 never fits a 64-bit limit).
func c33Fits(acc [5]*big.Int, item [5]uint64, limit [5]uint64) bool {
	for k := 0; k < 5; k++ {
		if new(big.Int).Add(acc[k], c33Big(item[k])).Cmp(c33Big(limit[k])) > 0 {
			return false
		}
	}
	return true
}

func c33Zero() [5]*big.Int {
	var a [5]*big.Int
	for k := range a {
		a[k] = new(big.Int)
	}
	return a
}

// c33DocOrder replays the documented consideration order: ascending, stable, by
// sum_k (65536 * d_k^2) / limit_k^2 over the dimensions with a non-zero limit.
func c33DocOrder(c c33Case) []int {
	w := make([]*big.Int, len(c.Dims))
	for i, d := range c.Dims {
		s := new(big.Int)
		for k := 0; k < 5; k++ {
			if c.Limit[k] == 0 {
				continue
			}
			x := c33Big(d[k])
			x.Mul(x, x)
			x.Mul(x, big.NewInt(65536))
			l := c33Big(c.Limit[k])
			l.Mul(l, l)
			s.Add(s, x.Div(x, l))
		}
		w[i] = s
	}
	order := make([]int, len(c.Dims))
	for i := range order {
		order[i] = i
	}
	sort.SliceStable(order, func(a, b int) bool { return w[order[a]].Cmp(w[order[b]]) < 0 })
	return order
}

type c33Stats struct {
	returned, skipped int
	interleaved       bool // some returned index comes after a skipped one in the documented order
}

func c33Judge(r *kit.Run, c c33Case) c33Stats {
	var st c33Stats
	dims := make([]fees.Dimensions, len(c.Dims))
	for i, d := range c.Dims {
		dims[i] = fees.Dimensions(d)
	}
	var idx []uint64
	var total fees.Dimensions
	done := false
	r.Guard("fees.LargestSet", c, func() {
		idx, total = fees.LargestSet(dims, fees.Dimensions(c.Limit))
		done = true
	})
	r.Eval()
	if !done {
		return st
	}
	// the inputs must not have been modified
	for i, d := range c.Dims {
		if [5]uint64(dims[i]) != d {
			r.Violation("C33/input-modified", c, "input vector %d changed from %v to %v", i, d, dims[i])
			return st
		}
	}
	// (a) distinct indices in range
	seen := map[uint64]bool{}
	for _, i := range idx {
		if i >= uint64(len(c.Dims)) || seen[i] {
			r.Violation("C33/index-out-of-range-or-duplicate", c, "returned indices %v over %d inputs", idx, len(c.Dims))
			return st
		}
		seen[i] = true
	}
	// (b) the returned set fits, (c) the returned total is its sum
	sum := c33Zero()
	for _, i := range idx {
		for k := 0; k < 5; k++ {
			sum[k].Add(sum[k], c33Big(c.Dims[i][k]))
		}
	}
	for k := 0; k < 5; k++ {
		if sum[k].Cmp(c33Big(c.Limit[k])) > 0 {
			r.Violation("C33/returned-set-exceeds-limit", c, "indices %v sum to %s in dimension %d, limit %d", idx, sum[k], k, c.Limit[k])
			return st
		}
	}
	for k := 0; k < 5; k++ {
		if sum[k].Cmp(c33Big(total[k])) != 0 {
			r.Violation("C33/total-differs-from-sum-of-returned", c, "returned indices %v sum to %v but the returned total is %v", idx, sum, total)
			break
		}
	}
	// (d) every skipped input would not have fitted when it was considered. Whatever the
	// order of consideration, the accumulator then was at most the final sum, so an input
	// that still fits on top of the final sum certainly fitted when it was considered.
	st.returned = len(idx)
	for i := range c.Dims {
		if seen[uint64(i)] {
			continue
		}
		st.skipped++
		if c33Fits(sum, c.Dims[i], c.Limit) {
			r.Violation("C33/skipped-input-fits", c, "input %d %v was skipped although it fits on top of everything returned (indices %v, sum %v, limit %v)", i, c.Dims[i], idx, sum, c.Limit)
			break
		}
	}
	// (e) exact replay of the documented order (only where the documented weights are
	// unambiguous: every value below 2^63)
	small := true
	for _, d := range c.Dims {
		for k := 0; k < 5; k++ {
			if d[k] >= 1<<63 {
				small = false
			}
		}
	}
	for k := 0; k < 5; k++ {
		if c.Limit[k] >= 1<<63 {
			small = false
		}
	}
	if small {
		acc := c33Zero()
		sawSkip := false
		for _, i := range c33DocOrder(c) {
			fits := c33Fits(acc, c.Dims[i], c.Limit)
			if fits {
				for k := 0; k < 5; k++ {
					acc[k].Add(acc[k], c33Big(c.Dims[i][k]))
				}
				if sawSkip {
					st.interleaved = true
				}
			} else {
				sawSkip = true
			}
			if fits != seen[uint64(i)] {
				if fits {
					r.Violation("C33/skipped-input-fitted-when-considered", c, "in the documented (ascending weight, stable) order input %d %v fits when it is considered (accumulated %v, limit %v) but it is not among the returned indices %v", i, c.Dims[i], acc, c.Limit, idx)
				} else {
					r.Violation("C33/returned-input-did-not-fit-when-considered", c, "in the documented order input %d %v does not fit when it is considered but it was returned (indices %v)", i, c.Dims[i], idx)
				}
				break
			}
		}
		r.Count("documented_order_replays", 1)
	}
	return st
}

func c33Shape(c c33Case) string { return fmt.Sprint(c.Dims, c.Limit) }

func TestC33(t *testing.T) {
	r := kit.Start(t, "C33", "exploration")
	r.Rule("inputs: 0..12 dimension vectors and a limit drawn from boundary-biased pools (0, 1, small, about a third/half/all of the limit, limit+1, 2^63-1, 2^63, 2^64-1), sparse and dense vectors, limits with zero dimensions, duplicates; a targeted family puts an item that cannot fit between items that do (different binding dimensions). Oracle (math/big): indices distinct and in range; their per-dimension sum is within the limit; the returned total equals that sum; no skipped input fits on top of the final sum (sound for any consideration order); for inputs below 2^63 additionally an exact replay of the documented ascending-weight stable greedy. Non-trivial = at least one input returned and one skipped; distinct = distinct (vectors, limit).")
	r.Assume("for the exact replay the consideration order is the one documented at LargestSet (ascending sum of 65536*d^2/limit^2, stable); it is applied only when every value is < 2^63")
	rng := r.Rand("cases")

	judge := func(c c33Case) {
		st := c33Judge(r, c)
		r.Count("inputs_returned", st.returned)
		r.Count("inputs_skipped", st.skipped)
		if st.interleaved {
			r.Count("cases_with_fitting_after_skipped", 1)
		}
		if st.returned > 0 && st.skipped > 0 {
			r.Distinct(c33Shape(c))
			r.Sample(c)
		}
	}
	if rf := r.Replay(); rf != nil && len(rf.Witness) > 0 {
		var c c33Case
		if err := json.Unmarshal(rf.Witness, &c); err == nil {
			judge(c)
			r.Finish(0)
			return
		}
	}

	// fixed seeds from the design probes
	judge(c33Case{Dims: [][5]uint64{{60}, {0, 700}, {60}}, Limit: [5]uint64{100, 1000, 1000, 1000, 1000}, Note: "probe"})
	judge(c33Case{Dims: [][5]uint64{{10}, {45}, {20}, {30}}, Limit: [5]uint64{60, 60, 60, 60, 60}, Note: "probe"})
	judge(c33Case{Dims: nil, Limit: [5]uint64{1, 1, 1, 1, 1}})
	judge(c33Case{Dims: [][5]uint64{{1, 1, 1, 1, 1}}, Limit: [5]uint64{}})

	val := func(lim uint64) uint64 {
		switch rng.IntN(14) {
		case 0, 1, 2:
			return 0
		case 3:
			return 1
		case 4:
			return lim / 3
		case 5:
			return lim / 2
		case 6:
			return lim
		case 7:
			if lim < ^uint64(0) {
				return lim + 1
			}
			return lim
		case 8:
			return 1<<63 - 1
		case 9:
			return 1 << 63
		case 10:
			return ^uint64(0)
		case 11:
			if lim > 0 {
				return rng.Uint64N(lim) + 1
			}
			return 0
		default:
			return uint64(rng.IntN(50))
		}
	}
	lim := func() uint64 {
		switch rng.IntN(10) {
		case 0:
			return 0
		case 1:
			return 1
		case 2:
			return ^uint64(0)
		case 3:
			return 1<<63 - 1
		case 4:
			return 1 << 63
		case 5:
			return rng.Uint64()
		default:
			return uint64(1 + rng.IntN(2000))
		}
	}
	n := r.N(30000, 3000000)
	for i := 0; i < n && r.Violations() < 40; i++ {
		var c c33Case
		mode := rng.IntN(4)
		switch mode {
		case 0: // arbitrary boundary soup
			for k := 0; k < 5; k++ {
				c.Limit[k] = lim()
			}
			ni := rng.IntN(13)
			for j := 0; j < ni; j++ {
				var d [5]uint64
				for k := 0; k < 5; k++ {
					if rng.IntN(2) == 0 {
						d[k] = val(c.Limit[k])
					}
				}
				c.Dims = append(c.Dims, d)
			}
		case 1: // small numbers, several binding dimensions (all below 2^63: exact replay applies)
			for k := 0; k < 5; k++ {
				c.Limit[k] = uint64(10 + rng.IntN(200))
				if rng.IntN(8) == 0 {
					c.Limit[k] = 0
				}
			}
			ni := 2 + rng.IntN(10)
			for j := 0; j < ni; j++ {
				var d [5]uint64
				nd := 1 + rng.IntN(3)
				for x := 0; x < nd; x++ {
					k := rng.IntN(5)
					d[k] = uint64(rng.IntN(int(c.Limit[k]) + 5))
				}
				c.Dims = append(c.Dims, d)
			}
		case 2: // planted: light-but-unfittable item between fitting ones
			c.Limit = [5]uint64{100, 1000, 1000, 1000, 1000}
			a := uint64(51 + rng.IntN(49))
			c.Dims = [][5]uint64{{a}, {0, uint64(600 + rng.IntN(400))}, {a}}
			extra := rng.IntN(4)
			for j := 0; j < extra; j++ {
				var d [5]uint64
				d[2+rng.IntN(3)] = uint64(1 + rng.IntN(999))
				pos := rng.IntN(len(c.Dims) + 1)
				c.Dims = append(c.Dims[:pos], append([][5]uint64{d}, c.Dims[pos:]...)...)
			}
		default: // one dimension, many items of similar size (knapsack-like), sometimes duplicated
			k := rng.IntN(5)
			c.Limit = [5]uint64{1 << 40, 1 << 40, 1 << 40, 1 << 40, 1 << 40}
			c.Limit[k] = uint64(20 + rng.IntN(100))
			ni := 2 + rng.IntN(11)
			for j := 0; j < ni; j++ {
				var d [5]uint64
				d[k] = uint64(rng.IntN(int(c.Limit[k])))
				if rng.IntN(3) == 0 {
					d[(k+1)%5] = uint64(rng.IntN(1 << 20))
				}
				c.Dims = append(c.Dims, d)
				if rng.IntN(6) == 0 {
					c.Dims = append(c.Dims, d)
				}
			}
		}
		judge(c)
		if i%7 == 0 {
			// exact fill: inputs that add up to the limit in every dimension, with all-zero
			// inputs (which always fit) before, between and after them; also the all-zero limit
			var e c33Case
			if rng.IntN(4) != 0 {
				parts := 1 + rng.IntN(6)
				for p := 0; p < parts; p++ {
					var d [5]uint64
					for k := 0; k < 5; k++ {
						if rng.IntN(2) == 0 {
							d[k] = uint64(rng.IntN(50))
						}
						e.Limit[k] += d[k]
					}
					e.Dims = append(e.Dims, d)
				}
			}
			for z := 0; z < 1+rng.IntN(3); z++ {
				pos := rng.IntN(len(e.Dims) + 1)
				if rng.IntN(2) == 0 {
					pos = len(e.Dims)
				}
				e.Dims = append(e.Dims[:pos], append([][5]uint64{{}}, e.Dims[pos:]...)...)
			}
			judge(e)
			r.Count("exact_fill_cases_with_zero_inputs", 1)
		}
	}
	r.Finish(r.N(2000, 20000))
}
