package purex

import (
	"crypto/sha256"
	"encoding/hex"
	"encoding/json"
	"fmt"
	"math/rand/v2"
	"strings"
	"testing"

	"github.com/ava-labs/hypersdk/codec"
	"github.com/ava-labs/hypersdk/zzverif/kit"
)

// ---- oracle: the checksummed text encoding, written from the statement ----

const (
	c28AddrLen = 33
	c28SumLen  = 4
)

// c28Sum: checksum = last four bytes of sha256(payload) (checked against Address.String at start-up).
func c28Sum(payload []byte) []byte {
	h := sha256.Sum256(payload)
	return h[len(h)-c28SumLen:]
}

func c28Encode(payload []byte) string {
	return "0x" + hex.EncodeToString(append(append([]byte{}, payload...), c28Sum(payload)...))
}

type c28Verdict int

const (
	c28MustReject c28Verdict = iota
	c28MustAccept            // the canonical encoding of an address
	c28MayAccept             // same bytes in a non-canonical spelling (no prefix, 0X, upper-case digits): either answer, but never a different address
)

func c28IsHex(s string) bool {
	for i := 0; i < len(s); i++ {
		c := s[i]
		if !(c >= '0' && c <= '9' || c >= 'a' && c <= 'f' || c >= 'A' && c <= 'F') {
			return false
		}
	}
	return true
}

// c28Classify decides what a parser of "the checksummed encoding of exactly one full-length address" must do with s.
func c28Classify(s string) (c28Verdict, [c28AddrLen]byte, string) {
	var zero [c28AddrLen]byte
	body := s
	canonicalPrefix := false
	switch {
	case strings.HasPrefix(s, "0x"):
		body, canonicalPrefix = s[2:], true
	case strings.HasPrefix(s, "0X"):
		body = s[2:]
	}
	if len(body)%2 != 0 || !c28IsHex(body) {
		return c28MustReject, zero, "not hex"
	}
	raw, err := hex.DecodeString(strings.ToLower(body))
	if err != nil {
		return c28MustReject, zero, "not hex"
	}
	if len(raw) != c28AddrLen+c28SumLen {
		return c28MustReject, zero, fmt.Sprintf("decodes to %d bytes, a full-length address with checksum has %d", len(raw), c28AddrLen+c28SumLen)
	}
	payload, sum := raw[:c28AddrLen], raw[c28AddrLen:]
	if hex.EncodeToString(sum) != hex.EncodeToString(c28Sum(payload)) {
		return c28MustReject, zero, "bad checksum"
	}
	var a [c28AddrLen]byte
	copy(a[:], payload)
	if canonicalPrefix && body == strings.ToLower(body) {
		return c28MustAccept, a, "canonical"
	}
	return c28MayAccept, a, "non-canonical spelling"
}

type c28Case struct {
	Class string `json:"class"`
	Input string `json:"input"`
}

// c28Check parses s through every parser entry point and judges each answer with the
// oracle; violations are keyed keyPrefix+<class of failure>. It keeps no monitor state of
// its own (only r.Violation, which is locked), so it may be called from many goroutines.
func c28Check(r *kit.Run, keyPrefix, class, s string) c28Verdict {
	c := c28Case{Class: class, Input: s}
	verdict, want, why := c28Classify(s)
	type res struct {
		name string
		addr codec.Address
		err  error
	}
	var results []res
	r.Guard(strings.TrimPrefix(keyPrefix, "C28/")+"codec.StringToAddress", c, func() {
		a, err := codec.StringToAddress(s)
		results = append(results, res{"StringToAddress", a, err})
		var u codec.Address
		err = u.UnmarshalText([]byte(s))
		results = append(results, res{"UnmarshalText", u, err})
		if js, jerr := json.Marshal(s); jerr == nil {
			var j codec.Address
			err = json.Unmarshal(js, &j)
			results = append(results, res{"json.Unmarshal", j, err})
		}
	})
	for _, x := range results {
		switch verdict {
		case c28MustReject:
			if x.err == nil {
				key := "malformed-input-accepted"
				switch {
				case strings.HasPrefix(why, "decodes to"):
					key = "wrong-length-payload-accepted"
				case why == "bad checksum":
					key = "bad-checksum-accepted"
				}
				r.Violation(keyPrefix+key, c, "%s(%q) accepted (-> %x) an input that is not the encoding of a full-length address: %s [class %s]", x.name, s, x.addr[:], why, class)
			}
		case c28MustAccept:
			if x.err != nil {
				r.Violation(keyPrefix+"canonical-encoding-rejected", c, "%s(%q) failed: %v", x.name, s, x.err)
			} else if [c28AddrLen]byte(x.addr) != want {
				r.Violation(keyPrefix+"roundtrip-mismatch", c, "%s(%q) = %x, want %x", x.name, s, x.addr[:], want[:])
			}
		case c28MayAccept:
			if x.err == nil && [c28AddrLen]byte(x.addr) != want {
				r.Violation(keyPrefix+"noncanonical-spelling-wrong-address", c, "%s(%q) = %x, the digits spell %x", x.name, s, x.addr[:], want[:])
			}
		}
	}
	return verdict
}

func c28Judge(r *kit.Run, class, s string) {
	verdict := c28Check(r, "C28/", class, s)
	r.Eval()
	switch verdict {
	case c28MustReject:
		r.Count("oracle_must_reject", 1)
	case c28MustAccept:
		r.Count("oracle_must_accept", 1)
	default:
		r.Count("oracle_either", 1)
	}
	r.Count("class_"+class, 1)
	if verdict != c28MustAccept {
		r.Distinct("in", s) // every hostile / non-canonical string is a case of its own
	}
}

func c28RandAddr(rng *rand.Rand) codec.Address {
	var a codec.Address
	switch rng.IntN(8) {
	case 0: // all zero
	case 1:
		for i := range a {
			a[i] = 0xff
		}
	case 2: // only the type id
		a[0] = byte(rng.UintN(256))
	case 3: // only the last byte
		a[c28AddrLen-1] = byte(1 + rng.UintN(255))
	default:
		for i := range a {
			a[i] = byte(rng.UintN(256))
		}
	}
	return a
}

func TestC28(t *testing.T) {
	r := kit.Start(t, "C28", "exploration")
	r.Rule("round trip: random and boundary addresses through String/MarshalText/json.Marshal and back (StringToAddress, UnmarshalText, json.Unmarshal). Hostile strings derived from a valid encoding: payloads of every length 0..80 != 33 carrying a VALID checksum (truncated, extended, zero-padded, prefix of a real address), one flipped nibble at every position, dropped/duplicated characters (odd length), a non-hex character at any position, whitespace, doubled prefix, missing checksum, empty input; non-canonical spellings (no prefix, 0X, upper/mixed case) may be accepted or rejected but never yield another address. Oracle: accept iff the text is 0x + lower-case hex of 33 bytes followed by the last 4 bytes of their sha256. Concurrent part: 16 goroutines (own PRNG streams) format random/boundary addresses (String, MarshalText, json) and parse the produced text, the oracle's canonical text and hostile relatives (flipped nibble, wrong length with valid checksum, checksum of another address, dropped character, upper case) at the same time; every single answer is judged by the same classifier/encoder as in the sequential part (keys C28/concurrent/...). Non-trivial = hostile or non-canonical input; distinct = distinct input string (plus class x length/position buckets).")
	r.Assume("formatting and parsing are functions of their argument: the answer required for one call does not depend on other calls running at the same time",
		"checksum = last 4 bytes of sha256(payload) (verified against Address.String on start-up; a mismatch makes the run inconclusive, not violated)",
		"whether the 0x prefix is optional and whether upper-case hex digits are admitted is left open by the statement: such inputs are only required not to produce a different address")
	rng := r.Rand("cases")

	if rf := r.Replay(); rf != nil && len(rf.Witness) > 0 {
		var c c28Case
		if err := json.Unmarshal(rf.Witness, &c); err == nil {
			if strings.HasPrefix(c.Class, "concurrent/") {
				// an interleaving cannot be replayed step by step: re-run the concurrent part
				c28Concurrent(r, 16, r.N(4000, 100000))
			} else {
				c28Judge(r, c.Class, c.Input)
			}
			r.Finish(0)
			return
		}
	}

	// start-up check of the oracle's own encoding against the code's formatter
	for i := 0; i < 50; i++ {
		a := c28RandAddr(rng)
		if got := a.String(); got != c28Encode(a[:]) {
			// the formatter does not produce the oracle's encoding: if its own text does not
			// even parse back to the same address, the round-trip clause itself is violated;
			// only a different but self-consistent encoding makes the oracle inapplicable
			back, err := codec.StringToAddress(got)
			if err != nil || back != a {
				r.Eval()
				r.Distinct("startup/" + got)
				r.Violation("C28/roundtrip-mismatch", c28Case{Class: "roundtrip-string", Input: got},
					"Address %x formats to %q which parses back to %x (err %v)", a[:], got, back[:], err)
				continue
			}
			r.Inconclusive("oracle encoding assumption does not hold: Address.String()=%s, oracle %s", got, c28Encode(a[:]))
			r.Finish(0)
			return
		}
	}

	n := r.N(3000, 500000)
	for i := 0; i < n && r.Violations() < 40; i++ {
		a := c28RandAddr(rng)
		shape := "rand"
		switch {
		case a == codec.Address{}:
			shape = "zero"
		case a[1] == 0 && a[2] == 0 && a[c28AddrLen-1] == 0:
			shape = "typeonly"
		}
		// (1) round trip through every formatter
		s := a.String()
		c28Judge(r, "roundtrip-string", s)
		r.Guard("codec.StringToAddress", c28Case{Class: "roundtrip-string", Input: s}, func() {
			if back, err := codec.StringToAddress(s); err != nil || back != a {
				r.Violation("C28/roundtrip-mismatch", c28Case{Class: "roundtrip-string", Input: s}, "address %x formats to %q which parses to (%x,%v)", a[:], s, back[:], err)
			}
		})
		mt, _ := a.MarshalText()
		c28Judge(r, "roundtrip-marshaltext", string(mt))
		if js, err := json.Marshal(a); err == nil {
			var back codec.Address
			r.Eval()
			if err := json.Unmarshal(js, &back); err != nil || back != a {
				r.Violation("C28/roundtrip-mismatch", c28Case{Class: "json", Input: string(js)}, "json round trip of %x gave (%x,%v)", a[:], back[:], err)
			}
		}
		r.Distinct("rt", shape, i%64)

		full := c28Encode(a[:]) // canonical, independent of the code under test
		body := full[2:]

		// (2) wrong-length payload with a valid checksum
		for k := 0; k < 3; k++ {
			l := rng.IntN(81)
			if l == c28AddrLen {
				l = 2
			}
			var payload []byte
			mode := rng.IntN(4)
			switch mode {
			case 0: // prefix of the address / address extended with extra bytes
				if l <= c28AddrLen {
					payload = append([]byte{}, a[:l]...)
				} else {
					payload = append(append([]byte{}, a[:]...), make([]byte, l-c28AddrLen)...)
					for j := c28AddrLen; j < l; j++ {
						payload[j] = byte(rng.UintN(256))
					}
				}
			case 1: // suffix of the address
				if l <= c28AddrLen {
					payload = append([]byte{}, a[c28AddrLen-l:]...)
				} else {
					payload = append(make([]byte, l-c28AddrLen), a[:]...)
				}
			case 2: // zeros
				payload = make([]byte, l)
			default:
				payload = make([]byte, l)
				for j := range payload {
					payload[j] = byte(rng.UintN(256))
				}
			}
			c28Judge(r, "wrong-length-valid-checksum", c28Encode(payload))
			r.Distinct("len", l, mode)
		}

		// (3) one flipped nibble anywhere (payload or checksum)
		pos := rng.IntN(len(body))
		nb := []byte(body)
		for {
			d := "0123456789abcdef"[rng.IntN(16)]
			if d != nb[pos] {
				nb[pos] = d
				break
			}
		}
		c28Judge(r, "flipped-nibble", "0x"+string(nb))
		r.Distinct("flip", pos)

		// (4) structural damage
		switch m := rng.IntN(9); m {
		case 0: // drop one character -> odd length
			p := rng.IntN(len(body))
			c28Judge(r, "dropped-char", "0x"+body[:p]+body[p+1:])
			r.Distinct("drop", p)
		case 1: // duplicate one character -> odd length
			p := rng.IntN(len(body))
			c28Judge(r, "duplicated-char", "0x"+body[:p]+body[p:p+1]+body[p:])
			r.Distinct("dup", p)
		case 2: // non-hex character
			p := rng.IntN(len(body))
			const junk = "gGzxX -_.:/\x00\n"
			bad := junk[rng.IntN(len(junk))]
			c28Judge(r, "non-hex-char", "0x"+body[:p]+string(bad)+body[p+1:])
			r.Distinct("nonhex", p, bad)
		case 3: // whitespace around
			ws := []string{" ", "\t", "\n"}[rng.IntN(3)]
			if rng.IntN(2) == 0 {
				c28Judge(r, "whitespace", ws+full)
			} else {
				c28Judge(r, "whitespace", full+ws)
			}
			r.Distinct("ws", ws)
		case 4: // doubled prefix / prefix in the middle
			c28Judge(r, "double-prefix", "0x"+full)
			c28Judge(r, "prefix-only", "0x")
			c28Judge(r, "empty", "")
			r.Distinct("prefix", i%8)
		case 5: // checksum removed / only part of it
			cut := 2 * (1 + rng.IntN(c28SumLen))
			c28Judge(r, "checksum-truncated", full[:len(full)-cut])
			r.Distinct("cut", cut)
		case 6: // two encodings concatenated / trailing bytes
			if rng.IntN(2) == 0 {
				c28Judge(r, "concatenated", full+body)
			} else {
				extra := make([]byte, 1+rng.IntN(4))
				c28Judge(r, "trailing-bytes", full+hex.EncodeToString(extra))
			}
			r.Distinct("cat", i%8)
		case 7: // non-canonical spellings of a valid encoding
			c28Judge(r, "no-prefix", body)
			c28Judge(r, "upper-prefix", "0X"+body)
			c28Judge(r, "upper-case", "0x"+strings.ToUpper(body))
			mixed := []byte(body)
			for j := range mixed {
				if rng.IntN(2) == 0 {
					mixed[j] = strings.ToUpper(string(mixed[j]))[0]
				}
			}
			c28Judge(r, "mixed-case", "0x"+string(mixed))
			r.Distinct("spell", i%16)
		default: // upper-case spelling of a damaged encoding must still be rejected
			p := rng.IntN(len(body))
			nb := []byte(strings.ToUpper(body))
			if nb[p] == '0' {
				nb[p] = '1'
			} else {
				nb[p] = '0'
			}
			c28Judge(r, "upper-case-flipped", string(nb))
			r.Distinct("upflip", p)
		}
	}
	// every wrong length once, deterministically
	var a codec.Address
	for i := range a {
		a[i] = byte(i + 1)
	}
	for l := 0; l <= 80; l++ {
		if l == c28AddrLen {
			continue
		}
		p := make([]byte, l)
		copy(p, a[:])
		c28Judge(r, "wrong-length-valid-checksum", c28Encode(p))
		r.Distinct("len-all", l)
	}

	// (5) the same calls from many goroutines at once
	c28Concurrent(r, 16, r.N(4000, 100000))
	r.Finish(r.N(3000, 100000))
}
