package purex

import (
	"encoding/hex"
	"encoding/json"
	"fmt"
	"strings"
	"sync"

	"github.com/ava-labs/hypersdk/zzverif/kit"
)

// c28Concurrent: G goroutines format and parse addresses at the same time. Every single
// answer is judged exactly as in the sequential part (same classifier, same encoder):
// the statement quantifies over all addresses and all strings, and a formatter / parser
// that is a function of its argument answers the same whatever else runs beside it.
// Goroutines keep their tallies locally (merged after Wait) so that the monitor's own
// lock does not serialise the calls into the code under test.
func c28Concurrent(r *kit.Run, goroutines, iters int) {
	const pre = "C28/concurrent/"
	type tally struct {
		formatted, parsed, hostile, mustReject, mustAccept, either int
		distinct                                                   []string
	}
	tallies := make([]tally, goroutines)
	start := make(chan struct{})
	var wg sync.WaitGroup
	for g := 0; g < goroutines; g++ {
		wg.Add(1)
		go func(g int) {
			defer wg.Done()
			rng := r.Rand(fmt.Sprintf("concurrent-%d", g))
			tl := &tallies[g]
			<-start
			for i := 0; i < iters; i++ {
				if i%64 == 0 && r.Violations() >= 40 {
					return
				}
				a := c28RandAddr(rng)
				full := c28Encode(a[:]) // canonical text, computed by the oracle alone
				body := full[2:]

				// (a) formatters: the text must be the checksummed encoding of a (and parse back to a)
				var texts [3]string
				var ok [3]bool
				names := [3]string{"String", "MarshalText", "json.Marshal"}
				fc := c28Case{Class: "concurrent/format", Input: full}
				r.Guard("concurrent/Address.String", fc, func() {
					texts[0], ok[0] = a.String(), true
					if mt, err := a.MarshalText(); err == nil {
						texts[1], ok[1] = string(mt), true
					} else {
						r.Violation(pre+"format-error", fc, "MarshalText of %x failed: %v", a[:], err)
					}
					if rng.IntN(4) == 0 {
						js, err := json.Marshal(a)
						var s string
						if err == nil {
							err = json.Unmarshal(js, &s)
						}
						if err != nil {
							r.Violation(pre+"format-error", fc, "json.Marshal of %x failed: %v", a[:], err)
						} else {
							texts[2], ok[2] = s, true
						}
					}
				})
				for k := range texts {
					if !ok[k] {
						continue
					}
					tl.formatted++
					verdict, dec, why := c28Classify(texts[k])
					if verdict != c28MustAccept || dec != [c28AddrLen]byte(a) {
						r.Violation(pre+"formatted-text-is-not-the-encoding", c28Case{Class: "concurrent/format", Input: texts[k]},
							"%s of address %x returned %q, which is not the checksummed encoding of that address (%s); the encoding is %q [%d goroutines formatting/parsing at the same time]",
							names[k], a[:], texts[k], why, full, goroutines)
						continue
					}
					// the text the code produced must parse back to a
					c28Check(r, pre, "concurrent/roundtrip-"+names[k], texts[k])
					tl.parsed++
				}

				// (b) parsers on the canonical text built by the oracle
				c28Check(r, pre, "concurrent/canonical", full)
				tl.parsed++
				tl.mustAccept++

				// (c) now and then a hostile / non-canonical relative of it
				if rng.IntN(3) == 0 {
					var s, class string
					switch rng.IntN(6) {
					case 0, 1: // one flipped nibble (payload or checksum)
						pos := rng.IntN(len(body))
						nb := []byte(body)
						for {
							d := "0123456789abcdef"[rng.IntN(16)]
							if d != nb[pos] {
								nb[pos] = d
								break
							}
						}
						s, class = "0x"+string(nb), "flipped-nibble"
					case 2: // wrong-length payload with a valid checksum
						l := rng.IntN(81)
						if l == c28AddrLen {
							l = c28AddrLen - 1
						}
						p := make([]byte, l)
						copy(p, a[:])
						s, class = c28Encode(p), "wrong-length-valid-checksum"
					case 3: // checksum of ANOTHER address (what a shared digest would produce)
						b := c28RandAddr(rng)
						if b == a {
							b[0] ^= 1
						}
						s, class = "0x"+hex.EncodeToString(a[:])+hex.EncodeToString(c28Sum(b[:])), "foreign-checksum"
					case 4: // structural damage
						p := rng.IntN(len(body))
						s, class = "0x"+body[:p]+body[p+1:], "dropped-char"
					default: // non-canonical spelling: never another address
						s, class = "0x"+strings.ToUpper(body), "upper-case"
					}
					switch c28Check(r, pre, "concurrent/"+class, s) {
					case c28MustReject:
						tl.mustReject++
					case c28MustAccept:
						tl.mustAccept++
					default:
						tl.either++
					}
					tl.hostile++
					tl.parsed++
					if len(tl.distinct) < 4096 {
						tl.distinct = append(tl.distinct, s)
					}
				}
			}
		}(g)
	}
	close(start)
	wg.Wait()
	var sum tally
	for g := range tallies {
		tl := &tallies[g]
		sum.formatted += tl.formatted
		sum.parsed += tl.parsed
		sum.hostile += tl.hostile
		sum.mustReject += tl.mustReject
		sum.mustAccept += tl.mustAccept
		sum.either += tl.either
		for _, s := range tl.distinct {
			r.Distinct("conc-in", s)
		}
	}
	r.EvalN(sum.formatted + sum.parsed)
	r.Count("concurrent_goroutines", goroutines)
	r.Count("concurrent_formatted_texts_judged", sum.formatted)
	r.Count("concurrent_parsed_texts_judged", sum.parsed)
	r.Count("concurrent_hostile_or_noncanonical_texts", sum.hostile)
	r.Count("concurrent_oracle_must_reject", sum.mustReject)
	r.Count("concurrent_oracle_must_accept", sum.mustAccept)
	r.Count("concurrent_oracle_either", sum.either)
}
