package purex

import (
	"encoding/json"
	"fmt"
	"math/big"
	"strings"
	"sync"
	"testing"

	"github.com/ava-labs/hypersdk/consts"
	"github.com/ava-labs/hypersdk/utils"
	"github.com/ava-labs/hypersdk/zzverif/kit"
)

const c34Decimals = 9

var (
	c34Pow    = new(big.Int).Exp(big.NewInt(10), big.NewInt(c34Decimals), nil)
	c34MaxU64 = new(big.Int).SetUint64(^uint64(0))
)

// c34Exact parses a plain decimal string (digits, optionally '.' and 1..9 digits)
// into base units with integer arithmetic. ok=false: not of that form.
func c34Exact(s string) (*big.Int, bool) {
	whole, frac, hasDot := strings.Cut(s, ".")
	if whole == "" || (hasDot && frac == "") || len(frac) > c34Decimals {
		return nil, false
	}
	for _, c := range whole + frac {
		if c < '0' || c > '9' {
			return nil, false
		}
	}
	w, _ := new(big.Int).SetString(whole, 10)
	w.Mul(w, c34Pow)
	if frac != "" {
		f, _ := new(big.Int).SetString(frac+strings.Repeat("0", c34Decimals-len(frac)), 10)
		w.Add(w, f)
	}
	return w, true
}

// c34Canonical: no superfluous leading zeros in the integer part.
func c34Canonical(s string) bool {
	whole, _, _ := strings.Cut(s, ".")
	return whole == "0" || !strings.HasPrefix(whole, "0")
}

type c34Case struct {
	Kind    string `json:"kind"` // format | parse
	Balance uint64 `json:"balance,omitempty"`
	Input   string `json:"input,omitempty"`
}

// c34Parse judges ParseBalance on one decimal string of the admitted form.
func c34Parse(r *kit.Run, s string, origin string) {
	c := c34Case{Kind: "parse", Input: s}
	want, ok := c34Exact(s)
	if !ok {
		return
	}
	r.Eval()
	if want.Cmp(c34MaxU64) > 0 {
		r.Count("parse_out_of_range_not_judged", 1)
		return
	}
	var got uint64
	var err error
	done := false
	r.Guard("utils.ParseBalance", c, func() { got, err = utils.ParseBalance(s); done = true })
	if !done {
		return
	}
	if err != nil {
		if c34Canonical(s) {
			r.Violation("C34/decimal-string-rejected", c, "ParseBalance(%q) failed: %v; the string denotes %s base units [%s]", s, err, want, origin)
		} else {
			r.Count("parse_leading_zero_rejected", 1)
		}
		return
	}
	r.Count("parse_judged", 1)
	if new(big.Int).SetUint64(got).Cmp(want) != 0 {
		r.Violation("C34/parse-inexact", c, "ParseBalance(%q) = %d, exact value %s (off by %s) [%s]", s, got, want, new(big.Int).Sub(new(big.Int).SetUint64(got), want), origin)
	}
}

// c34Format judges FormatBalance + the round trip for one balance.
func c34Format(r *kit.Run, b uint64) {
	c := c34Case{Kind: "format", Balance: b}
	var s string
	done := false
	r.Guard("utils.FormatBalance", c, func() { s = utils.FormatBalance(b); done = true })
	r.Eval()
	if !done {
		return
	}
	var back uint64
	var err error
	done = false
	r.Guard("utils.ParseBalance", c, func() { back, err = utils.ParseBalance(s); done = true })
	if !done {
		return
	}
	if err != nil {
		r.Violation("C34/roundtrip-parse-error", c, "FormatBalance(%d)=%q does not parse back: %v", b, s, err)
		return
	}
	if back != b {
		r.Violation("C34/roundtrip-mismatch", c, "FormatBalance(%d)=%q parses back to %d (off by %d)", b, s, back, int64(back-b))
	}
	// the formatted text is itself a decimal string with at most 9 fractional digits:
	// the second clause of the property then fixes what it must parse to
	c34Parse(r, s, fmt.Sprintf("output of FormatBalance(%d)", b))
	r.Count("format_roundtrips", 1)
}

func c34String(b *big.Int, fracDigits int) string {
	// render b base units with exactly fracDigits fractional digits (b must be a multiple of 10^(9-fracDigits))
	q, m := new(big.Int).QuoRem(b, c34Pow, new(big.Int))
	if fracDigits == 0 {
		return q.String()
	}
	f := fmt.Sprintf("%09d", m.Uint64())[:fracDigits]
	return q.String() + "." + f
}

func TestC34(t *testing.T) {
	r := kit.Start(t, "C34", "exploration")
	r.Rule("format: boundary balances (0, 1, 10^k and 10^k +-1, 2^k and 2^k +-1 for every k, 2^53 +- few, 2^64-1 and neighbours) and random balances of every magnitude: ParseBalance(FormatBalance(b)) must be b, and the formatted text, being a decimal string, must parse to exactly the amount it denotes. parse: decimal strings digits[.digits{1,9}] generated from an exact integer amount rendered with 0..9 fractional digits (short fractions like 1.001, trailing zeros, the largest representable amounts), judged with math/big; strings beyond 2^64-1 base units are not judged, strings with superfluous leading zeros may be rejected. Distinct = distinct balance / distinct string.")
	r.Assume(fmt.Sprintf("the token has %d decimals (consts.Decimals)", c34Decimals),
		"admitted syntax: digits, optionally '.' followed by 1..9 digits; exponents, signs, '1.' and '.5' are not judged")
	if consts.Decimals != c34Decimals {
		r.Inconclusive("consts.Decimals=%d, the oracle is written for %d", consts.Decimals, c34Decimals)
		r.Finish(0)
		return
	}
	if rf := r.Replay(); rf != nil && len(rf.Witness) > 0 {
		var c c34Case
		if err := json.Unmarshal(rf.Witness, &c); err == nil {
			if c.Kind == "parse" {
				c34Parse(r, c.Input, "replay")
			} else {
				c34Format(r, c.Balance)
			}
			r.Finish(0)
			return
		}
	}
	// the very first conversions of the process come from many goroutines at once (a wallet
	// or CLI formats balances concurrently): every answer is judged like any sequential one
	{
		const G = 16
		start := make(chan struct{})
		var wg sync.WaitGroup
		for g := 0; g < G; g++ {
			wg.Add(1)
			go func(g int) {
				defer wg.Done()
				grng := r.Rand(fmt.Sprintf("first-use-%d", g))
				<-start
				for i := 0; i < 200; i++ {
					b := grng.Uint64() >> uint(grng.IntN(64))
					c34Format(r, b)
					c34Parse(r, fmt.Sprintf("%d.%09d", b%1000, grng.IntN(1_000_000_000)), "concurrent-first-use")
				}
			}(g)
		}
		close(start)
		wg.Wait()
		r.Count("concurrent_first_use_conversions", G*400)
	}
	rng := r.Rand("cases")

	// boundary balances
	seen := map[uint64]bool{}
	fm := func(b uint64) {
		if !seen[b] {
			seen[b] = true
			c34Format(r, b)
			r.Distinct("f", b)
		}
	}
	for _, b := range []uint64{0, 1, 2, 9, 10, 11, 99, 999999999, 1000000000, 1000000001, 1001000000, 4350000000, 300000000} {
		fm(b)
	}
	p := uint64(1)
	for k := 0; k < 20; k++ {
		for d := uint64(0); d < 3; d++ {
			fm(p - 1 + d)
			fm(p*9 - 1 + d)
		}
		if k < 19 {
			p *= 10
		}
	}
	for k := 0; k < 64; k++ {
		for d := uint64(0); d < 5; d++ {
			fm(uint64(1)<<k - 2 + d)
		}
	}
	for d := uint64(0); d < 64; d++ {
		fm(^uint64(0) - d)
		fm(1<<53 - 32 + d)
	}
	nf := r.N(60000, 3000000)
	for i := 0; i < nf && r.Violations() < 40; i++ {
		bits := 1 + rng.IntN(64)
		b := rng.Uint64() >> (64 - bits)
		switch rng.IntN(6) {
		case 0: // whole token amounts
			b = (b / 1000000000) * 1000000000
		case 1: // few significant fractional digits
			b = (b / 1000000) * 1000000
		}
		fm(b)
	}

	// decimal strings
	np := r.N(60000, 3000000)
	for i := 0; i < np && r.Violations() < 40; i++ {
		bits := 1 + rng.IntN(64)
		v := new(big.Int).SetUint64(rng.Uint64() >> (64 - bits))
		if rng.IntN(40) == 0 { // beyond the range (not judged, counted)
			v.Add(c34MaxU64, big.NewInt(int64(1+rng.IntN(1000))))
		}
		fd := rng.IntN(c34Decimals + 1)
		// make v a multiple of 10^(9-fd) so that it has a rendering with exactly fd fractional digits
		step := new(big.Int).Exp(big.NewInt(10), big.NewInt(int64(c34Decimals-fd)), nil)
		v.Sub(v, new(big.Int).Mod(v, step))
		s := c34String(v, fd)
		origin := fmt.Sprintf("%s base units rendered with %d fractional digits", v, fd)
		if rng.IntN(25) == 0 {
			s = strings.Repeat("0", 1+rng.IntN(3)) + s // superfluous leading zeros: may be rejected, never mis-parsed
		}
		c34Parse(r, s, origin)
		r.Distinct("p", s)
	}
	for _, s := range []string{"0", "1", "0.1", "0.3", "1.001", "4.35", "0.000000001", "0.000000010", "18446744073.709551615", "18446744073.709551614", "18446744073", "9007199.254740993", "1.100000000", "123456789.987654321"} {
		c34Parse(r, s, "fixed")
		r.Distinct("p", s)
	}
	r.Finish(r.N(5000, 100000))
}
