package purex

import (
	"bytes"
	"context"
	"encoding/binary"
	"encoding/json"
	"fmt"
	"math/big"
	"sort"
	"testing"

	"github.com/ava-labs/avalanchego/database/memdb"
	"github.com/ava-labs/avalanchego/ids"
	"github.com/ava-labs/avalanchego/trace"
	"github.com/ava-labs/avalanchego/utils/logging"
	"github.com/ava-labs/avalanchego/x/merkledb"

	"github.com/ava-labs/hypersdk/chain"
	"github.com/ava-labs/hypersdk/codec"
	"github.com/ava-labs/hypersdk/fees"
	"github.com/ava-labs/hypersdk/genesis"
	ifees "github.com/ava-labs/hypersdk/internal/fees"
	"github.com/ava-labs/hypersdk/state/balance"
	"github.com/ava-labs/hypersdk/state/metadata"
	"github.com/ava-labs/hypersdk/zzverif/chainfx"
	"github.com/ava-labs/hypersdk/zzverif/kit"
)

type c27Alloc struct {
	Addr    int    `json:"addr"` // index into the address pool
	Balance uint64 `json:"balance"`
}

type c27Case struct {
	Allocs    []c27Alloc `json:"allocations"`
	MinPrices [5]uint64  `json:"min_unit_prices"`
	BalPrefix []byte     `json:"balance_prefix"`
	MetaPfx   [3][]byte  `json:"metadata_prefixes"` // height, fee, timestamp
	ViaJSON   bool       `json:"via_json"`          // genesis loaded through DefaultGenesisFactory.Load
}

func c27Addr(i int) codec.Address {
	var a codec.Address
	// families 1..3: addresses that differ from each other in exactly one byte
	// (the last one, the type byte, a middle one); everything else is shared
	if i >= 100 && i < 400 {
		for k := range a {
			a[k] = byte(0x5a + 7*k)
		}
		switch i / 100 {
		case 1:
			a[codec.AddressLen-1] = byte(i)
		case 2:
			a[0] = byte(i)
		default:
			a[codec.AddressLen/2] = byte(i)
		}
		return a
	}
	a[0] = byte(i % 3)
	binary.BigEndian.PutUint32(a[1:], uint32(i)*2654435761+7)
	a[codec.AddressLen-1] = byte(i)
	return a
}

type c27Stats struct {
	rejected     bool
	dupAddrs     int
	zeroBalances int
	addrs        int
	jsonFailed   bool
}

func runC27(c c27Case) (string, string, c27Stats) {
	var st c27Stats
	ctx := context.Background()
	// oracle: per-address sums and the grand total, exact
	sums := map[codec.Address]*big.Int{}
	total := new(big.Int)
	for _, a := range c.Allocs {
		addr := c27Addr(a.Addr)
		if _, ok := sums[addr]; ok {
			st.dupAddrs++
		} else {
			sums[addr] = new(big.Int)
		}
		sums[addr].Add(sums[addr], new(big.Int).SetUint64(a.Balance))
		total.Add(total, new(big.Int).SetUint64(a.Balance))
		if a.Balance == 0 {
			st.zeroBalances++
		}
	}
	st.addrs = len(sums)
	overflow := total.Cmp(new(big.Int).SetUint64(^uint64(0))) > 0

	db, err := merkledb.New(ctx, memdb.New(), chainfx.MerkleConfig())
	if err != nil {
		return "harness", "merkledb: " + err.Error(), st
	}
	defer db.Close()
	emptyRoot, err := db.GetMerkleRoot(ctx)
	if err != nil {
		return "harness", err.Error(), st
	}
	var allocs []*genesis.CustomAllocation
	for _, a := range c.Allocs {
		allocs = append(allocs, &genesis.CustomAllocation{Address: c27Addr(a.Addr), Balance: a.Balance})
	}
	g := genesis.NewDefaultGenesis(allocs)
	g.Rules.MinUnitPrice = fees.Dimensions(c.MinPrices)
	var gen chain.Genesis = g
	var rf chain.RuleFactory = &genesis.ImmutableRuleFactory{Rules: g.Rules}
	if c.ViaJSON {
		raw, err := json.Marshal(g)
		if err != nil {
			return "harness", "marshal genesis: " + err.Error(), st
		}
		lg, lrf, err := genesis.DefaultGenesisFactory{}.Load(raw, nil, 7, ids.ID{9})
		if err != nil {
			st.jsonFailed = true // outside the property: fall back to the in-memory genesis
		} else {
			gen, rf = lg, lrf
		}
	}
	mm := metadata.NewManager(c.MetaPfx[0], c.MetaPfx[1], c.MetaPfx[2])
	bh := balance.NewPrefixBalanceHandler(c.BalPrefix)
	blk, view, err := chain.NewGenesisCommit(ctx, db, gen, mm, bh, rf, trace.Noop, logging.NoLog{})
	if overflow {
		st.rejected = true
		if err == nil {
			return "overflowing-allocations-accepted", fmt.Sprintf("allocations total %s > 2^64-1 but genesis initialised", total), st
		}
		// nothing may have reached the database
		if root, rerr := db.GetMerkleRoot(ctx); rerr != nil || root != emptyRoot {
			return "rejected-genesis-changed-db", fmt.Sprintf("database root changed by a rejected genesis (%v)", rerr), st
		}
		return "", "", st
	}
	if err != nil {
		return "valid-genesis-rejected", fmt.Sprintf("allocations total %s fits 64 bits but genesis failed: %v", total, err), st
	}
	if blk == nil || view == nil {
		return "valid-genesis-rejected", "nil block or view without error", st
	}
	// root of the genesis state = the block's state root; block is the height-0 root block
	root, err := view.GetMerkleRoot(ctx)
	if err != nil {
		return "harness", err.Error(), st
	}
	if root != blk.StateRoot {
		return "state-root-mismatch", fmt.Sprintf("genesis view root %s, genesis block state root %s", root, blk.StateRoot), st
	}
	if blk.Hght != 0 || blk.Prnt != ids.Empty || len(blk.Txs) != 0 {
		return "genesis-block-shape", fmt.Sprintf("genesis block height %d parent %s txs %d", blk.Hght, blk.Prnt, len(blk.Txs)), st
	}
	if err := view.CommitToDB(ctx); err != nil {
		return "harness", "commit: " + err.Error(), st
	}
	if dbRoot, err := db.GetMerkleRoot(ctx); err != nil || dbRoot != blk.StateRoot {
		return "state-root-mismatch", fmt.Sprintf("committed database root %s (%v), genesis block state root %s", dbRoot, err, blk.StateRoot), st
	}
	// expected contents
	hk, tk, fk := chain.HeightKey(mm.HeightPrefix()), chain.TimestampKey(mm.TimestampPrefix()), chain.FeeKey(mm.FeePrefix())
	balKeys := map[string]codec.Address{}
	for addr := range sums {
		balKeys[string(bh.BalanceKey(addr))] = addr
	}
	found := map[string][]byte{}
	it := db.NewIterator()
	defer it.Release()
	for it.Next() {
		found[string(it.Key())] = append([]byte{}, it.Value()...)
	}
	if err := it.Error(); err != nil {
		return "harness", "iterate: " + err.Error(), st
	}
	var extra []string
	for k := range found {
		if _, ok := balKeys[k]; ok {
			continue
		}
		if k == string(hk) || k == string(tk) || k == string(fk) {
			continue
		}
		extra = append(extra, fmt.Sprintf("%x", k))
	}
	if len(extra) > 0 {
		sort.Strings(extra)
		return "unexpected-state-key", fmt.Sprintf("genesis state holds keys that are neither configured balances nor chain metadata: %v", extra), st
	}
	for k, addr := range balKeys {
		want := sums[addr]
		raw, ok := found[k]
		if !ok {
			if want.Sign() == 0 {
				continue // an address configured with nothing may be absent: its balance reads as 0
			}
			return "balance-missing", fmt.Sprintf("address %s configured with %s has no balance entry", addr, want), st
		}
		if len(raw) != 8 || new(big.Int).SetUint64(binary.BigEndian.Uint64(raw)).Cmp(want) != 0 {
			return "balance-not-sum", fmt.Sprintf("address %s: stored balance %x, sum of its allocations %s", addr, raw, want), st
		}
		got, err := bh.GetBalance(ctx, addr, db)
		if err != nil || new(big.Int).SetUint64(got).Cmp(want) != 0 {
			return "balance-not-sum", fmt.Sprintf("address %s: GetBalance=(%d,%v), sum of its allocations %s", addr, got, err, want), st
		}
	}
	// an unconfigured address that differs from a configured one in a single byte has balance 0
	for addr := range sums {
		for _, pos := range []int{0, codec.AddressLen / 2, codec.AddressLen - 2, codec.AddressLen - 1} {
			nb := addr
			nb[pos] ^= 0x01
			if _, configured := sums[nb]; configured {
				continue
			}
			if got, err := bh.GetBalance(ctx, nb, db); err != nil || got != 0 {
				return "unconfigured-address-funded", fmt.Sprintf("unconfigured address %s (configured %s with byte %d changed) has balance (%d,%v)", nb, addr, pos, got, err), st
			}
		}
	}
	// an address that was not configured has balance 0
	if got, err := bh.GetBalance(ctx, c27Addr(1000), db); err != nil || got != 0 {
		return "unconfigured-address-funded", fmt.Sprintf("unconfigured address has balance (%d,%v)", got, err), st
	}
	if v, ok := found[string(hk)]; !ok || !bytes.Equal(v, make([]byte, 8)) {
		return "height-not-zero", fmt.Sprintf("height entry %x present=%v, want 8 zero bytes", v, ok), st
	}
	if v, ok := found[string(tk)]; !ok || !bytes.Equal(v, make([]byte, 8)) {
		return "timestamp-not-zero", fmt.Sprintf("timestamp entry %x present=%v, want 8 zero bytes", v, ok), st
	}
	fv, ok := found[string(fk)]
	if !ok {
		return "fee-state-missing", "no fee manager entry in the genesis state", st
	}
	if len(fv) < 8+5*8 {
		return "fee-state-missing", fmt.Sprintf("fee manager entry of %d bytes", len(fv)), st
	}
	if got := ifees.NewManager(append([]byte{}, fv...)).UnitPrices(); [5]uint64(got) != c.MinPrices {
		return "unit-prices-not-minimum", fmt.Sprintf("genesis unit prices %v, minimum prices %v", got, c.MinPrices), st
	}
	return "", "", st
}

func TestC27(t *testing.T) {
	r := kit.Start(t, "C27", "exploration")
	r.Rule("case = allocation list (0..14 entries over a pool of 1..6 addresses, in a third of the cases addresses that differ from each other in exactly one byte - the last, the type byte or a middle one; every unconfigured one-byte neighbour of a configured address must read 0: duplicates, zero balances, values 1, 2^32, 2^63, 2^64-1 and random; totals just below, at and above 2^64-1) x minimum unit price vector (0, 1, 100, 2^63, 2^64-1, random) x balance prefix x metadata prefixes (default and non-default), genesis built directly or round-tripped through its JSON form and DefaultGenesisFactory.Load; the real chain.NewGenesisCommit runs on an empty merkledb and the committed database is iterated. Oracle (math/big): error iff the grand total exceeds 2^64-1 (and then the database is untouched); otherwise every key is a configured address's balance key (= the sum of its allocations) or one of the three metadata keys, height = timestamp = 8 zero bytes, unit prices = minimum prices, view root = committed root = genesis block's state root, block height 0 without parent. Non-trivial = duplicate addresses or an overflowing total; distinct = distinct case.")
	r.Assume("the fee-manager state is decoded with internal/fees.Manager (the chain's own reader)",
		"an address whose configured allocations sum to 0 may or may not have a balance entry",
		"'total would overflow' is read as the sum over all allocations exceeding 2^64-1")
	judge := func(c c27Case) {
		var key, d string
		var st c27Stats
		r.Guard("chain.NewGenesisCommit", c, func() { key, d, st = runC27(c) })
		r.Eval()
		if d != "" {
			r.Violation("C27/"+key, c, "%s", d)
		}
		if st.rejected {
			r.Count("genesis_rejected_overflow", 1)
		} else {
			r.Count("genesis_accepted", 1)
		}
		if c.ViaJSON && !st.jsonFailed {
			r.Count("genesis_loaded_from_json", 1)
		}
		if st.jsonFailed {
			r.Count("genesis_json_load_failed_fell_back", 1)
		}
		r.Count("allocations_with_duplicate_address", st.dupAddrs)
		r.Count("zero_balance_allocations", st.zeroBalances)
		if st.dupAddrs > 0 || st.rejected {
			r.Distinct(fmt.Sprint(c.Allocs, c.MinPrices, c.BalPrefix, c.MetaPfx, c.ViaJSON))
			r.Sample(c)
		}
	}
	if rf := r.Replay(); rf != nil && len(rf.Witness) > 0 {
		var c c27Case
		if err := json.Unmarshal(rf.Witness, &c); err == nil && c.MetaPfx[0] != nil {
			judge(c)
			r.Finish(0)
			return
		}
	}
	rng := r.Rand("cases")
	max := ^uint64(0)
	bal := func() uint64 {
		switch rng.IntN(12) {
		case 0, 1:
			return 0
		case 2:
			return 1
		case 3:
			return 1 << 32
		case 4:
			return 1 << 63
		case 5:
			return max
		case 6:
			return max - uint64(rng.IntN(3))
		case 7:
			return 1<<63 - uint64(rng.IntN(3))
		default:
			return rng.Uint64() >> rng.IntN(64)
		}
	}
	price := func() uint64 {
		switch rng.IntN(7) {
		case 0:
			return 0
		case 1:
			return 1
		case 2:
			return 100
		case 3:
			return 1 << 63
		case 4:
			return max
		default:
			return rng.Uint64() >> rng.IntN(64)
		}
	}
	n := r.N(2500, 200000)
	for i := 0; i < n && r.Violations() < 20; i++ {
		c := c27Case{BalPrefix: []byte{0}, MetaPfx: [3][]byte{{0}, {2}, {1}}, ViaJSON: rng.IntN(4) == 0}
		if rng.IntN(3) == 0 {
			c.BalPrefix = []byte{byte(3 + rng.IntN(250))}
			if rng.IntN(2) == 0 {
				c.BalPrefix = append(c.BalPrefix, byte(rng.UintN(256)))
			}
		}
		if rng.IntN(3) == 0 {
			c.MetaPfx = [3][]byte{{0xF0, byte(rng.UintN(256))}, {0xF1}, {0xF2, 0, 1}}
		}
		for k := range c.MinPrices {
			c.MinPrices[k] = price()
		}
		pool := 1 + rng.IntN(6)
		na := rng.IntN(15)
		mode := rng.IntN(4)
		family := 0
		if rng.IntN(3) == 0 {
			family = 100 * (1 + rng.IntN(3)) // addresses differing in one byte only
		}
		for j := 0; j < na; j++ {
			a := c27Alloc{Addr: family + rng.IntN(pool)}
			switch mode {
			case 0: // boundary soup (often overflowing)
				a.Balance = bal()
			case 1: // small, never overflowing
				a.Balance = uint64(rng.IntN(1000))
			default: // random magnitudes
				a.Balance = rng.Uint64() >> rng.IntN(64)
			}
			c.Allocs = append(c.Allocs, a)
		}
		if mode == 3 && na >= 2 {
			// steer the grand total to exactly 2^64-1, one below or one above (the last two entries compensate)
			sum := new(big.Int)
			for _, a := range c.Allocs[:na-2] {
				sum.Add(sum, new(big.Int).SetUint64(a.Balance))
			}
			target := new(big.Int).SetUint64(max)
			target.Add(target, big.NewInt(int64(rng.IntN(3)-1)))
			rest := new(big.Int).Sub(target, sum)
			if rest.Sign() >= 0 && rest.BitLen() <= 65 {
				half := new(big.Int).Rsh(rest, 1)
				other := new(big.Int).Sub(rest, half)
				if half.IsUint64() && other.IsUint64() {
					c.Allocs[na-2].Balance = half.Uint64()
					c.Allocs[na-1].Balance = other.Uint64()
					r.Count("totals_steered_to_the_64bit_boundary", 1)
				}
			}
		}
		judge(c)
	}
	// fixed corner cases
	judge(c27Case{BalPrefix: []byte{0}, MetaPfx: [3][]byte{{0}, {2}, {1}}, MinPrices: [5]uint64{100, 100, 100, 100, 100}})
	judge(c27Case{BalPrefix: []byte{0}, MetaPfx: [3][]byte{{0}, {2}, {1}}, Allocs: []c27Alloc{{0, max}, {0, 1}}})
	judge(c27Case{BalPrefix: []byte{0}, MetaPfx: [3][]byte{{0}, {2}, {1}}, Allocs: []c27Alloc{{0, max}, {1, 1}}})
	judge(c27Case{BalPrefix: []byte{0}, MetaPfx: [3][]byte{{0}, {2}, {1}}, Allocs: []c27Alloc{{0, max}, {1, 0}, {0, 0}}})
	judge(c27Case{BalPrefix: []byte{0}, MetaPfx: [3][]byte{{0}, {2}, {1}}, Allocs: []c27Alloc{{0, 1 << 63}, {0, 1<<63 - 1}}})
	r.Finish(r.N(500, 5000))
}
