package codecx

import (
	"bytes"
	"context"
	"encoding/hex"
	"encoding/json"
	"fmt"
	"math/rand/v2"
	"os"
	"path/filepath"
	"strconv"
	"strings"
	"sync"
	"testing"
	"time"

	"github.com/ava-labs/avalanchego/ids"
	"github.com/ava-labs/avalanchego/snow/engine/snowman/block"

	"github.com/ava-labs/hypersdk/chain"
	"github.com/ava-labs/hypersdk/codec"
	"github.com/ava-labs/hypersdk/examples/morpheusvm/actions"
	mvm "github.com/ava-labs/hypersdk/examples/morpheusvm/vm"
	"github.com/ava-labs/hypersdk/fees"
	"github.com/ava-labs/hypersdk/keys"
	"github.com/ava-labs/hypersdk/state"
	"github.com/ava-labs/hypersdk/zzverif/chainfx"
	"github.com/ava-labs/hypersdk/zzverif/kit"
)

// ---- C15: one canonical encoding ----

var c15Kinds = []string{"tx", "block", "batch", "result", "results", "executed"}

func c15Parser(name string) chain.Parser {
	if name == "morpheusvm" {
		return mvm.Parser
	}
	return &chainfx.Parser{InnerAuth: chainfx.RealAuthParser}
}

type c15Case struct {
	Kind   string `json:"kind"`   // which decoder
	Parser string `json:"parser"` // morpheusvm | strict
	Input  string `json:"input"`  // hex
	Seed   string `json:"seed_kind,omitempty"`
	Path   string `json:"mutation,omitempty"`
}

func actionBytesOf(as []chain.Action) [][]byte {
	out := make([][]byte, len(as))
	for i, a := range as {
		out[i] = a.Bytes()
	}
	return out
}

// classifyTx names the component of an accepted transaction encoding that is not canonical.
func classifyTx(in []byte, tx *chain.Transaction) string {
	fs, ok := pbParse(in)
	if !ok {
		return "tx-framing"
	}
	ai := 0
	for _, f := range fs {
		switch {
		case f.Num == 2 && f.WT == wtLen:
			if ai < len(tx.Actions) {
				want := tx.Actions[ai].Bytes()
				if !bytes.Equal(f.Body, want) {
					name := strings.TrimPrefix(fmt.Sprintf("%T", tx.Actions[ai]), "*")
					if bytes.HasPrefix(f.Body, want) {
						return "action-accepts-trailing-bytes/" + name
					}
					return "action-not-canonical/" + name
				}
			}
			ai++
		case f.Num == 3 && f.WT == wtLen:
			want := tx.Auth.Bytes()
			if !bytes.Equal(f.Body, want) {
				name := strings.TrimPrefix(fmt.Sprintf("%T", tx.Auth), "*")
				if bytes.HasPrefix(f.Body, want) {
					return "auth-accepts-trailing-bytes/" + name
				}
				return "auth-not-canonical/" + name
			}
		}
	}
	return "tx-framing"
}

// checkTx judges one accepted transaction against the bytes it was decoded from.
// It returns the transaction rebuilt from its decoded components.
func checkTx(s sink, c c15Case, where string, in []byte, tx *chain.Transaction) (*chain.Transaction, bool) {
	if !bytes.Equal(tx.Bytes(), in) || tx.Size() != len(in) {
		s.Violation("C15/tx-bytes-not-input", c, "%s: Bytes()/Size() of the decoded transaction differ from the accepted input", where)
	}
	if h := sha(in); tx.GetID() != ids.ID(h) {
		s.Violation("C15/tx-id-not-hash", c, "%s: GetID() = %s, sha256(bytes) = %s", where, tx.GetID(), ids.ID(h))
	}
	var re *chain.Transaction
	s.Guard("NewTransaction", c, func() {
		var err error
		re, err = chain.NewTransaction(tx.Base, tx.Actions, tx.Auth)
		if err != nil {
			re = nil
		}
	})
	if re == nil {
		s.Violation("C15/tx-cannot-reencode", c, "%s: decoded transaction cannot be re-encoded", where)
		return nil, false
	}
	canonical := true
	ref := refEncodeTx(tx.Base.Timestamp, tx.Base.ChainID, tx.Base.MaxFee, actionBytesOf(tx.Actions), tx.Auth.Bytes())
	switch {
	case !bytes.Equal(re.Bytes(), in):
		canonical = false
		s.Violation("C15/"+classifyTx(in, tx), c, "%s: accepted %d bytes (id %s) decode to a transaction that re-encodes to %d different bytes (id %s)", where, len(in), tx.GetID(), len(re.Bytes()), re.GetID())
	case !bytes.Equal(ref, in):
		canonical = false
		s.Violation("C15/tx-encoder-differs-from-wire-format", c, "%s: NewTransaction reproduces the input but an independent encoder of the documented wire format gives %x", where, ref)
	}
	unsigned := refEncodeTx(tx.Base.Timestamp, tx.Base.ChainID, tx.Base.MaxFee, actionBytesOf(tx.Actions), nil)
	if canonical && !bytes.Equal(tx.UnsignedBytes(), unsigned) { // (a non-canonical component already explains a differing body)
		canonical = false
		s.Violation("C15/unsigned-bytes-not-body-encoding", c, "%s: UnsignedBytes() (the signed message, %d bytes) is not the encoding of (base, actions) without auth (%d bytes)", where, len(tx.UnsignedBytes()), len(unsigned))
	}
	if td := chain.NewTxData(tx.Base, tx.Actions); !bytes.Equal(td.UnsignedBytes(), unsigned) {
		s.Violation("C15/txdata-unsigned-bytes-differs-from-wire-format", c, "%s: NewTxData(base, actions).UnsignedBytes() differs from the independent encoding of the body", where)
	}
	return re, canonical
}

func copyResult(r *chain.Result) *chain.Result {
	if r == nil {
		return nil
	}
	return &chain.Result{Success: r.Success, Error: r.Error, Outputs: r.Outputs, Units: r.Units, Fee: r.Fee}
}

func copyResults(e *chain.ExecutionResults) *chain.ExecutionResults {
	if e == nil {
		return nil
	}
	out := &chain.ExecutionResults{UnitPrices: e.UnitPrices, UnitsConsumed: e.UnitsConsumed}
	for _, r := range e.Results {
		out.Results = append(out.Results, copyResult(r))
	}
	return out
}

func checkBlock(s sink, c c15Case, where string, in []byte, b *chain.StatelessBlock) *chain.StatelessBlock {
	if !bytes.Equal(b.GetBytes(), in) {
		s.Violation("C15/block-bytes-not-input", c, "%s: GetBytes() differs from the accepted input", where)
	}
	if h := sha(in); b.GetID() != ids.ID(h) {
		s.Violation("C15/block-id-not-hash", c, "%s: GetID() = %s, sha256(bytes) = %s", where, b.GetID(), ids.ID(h))
	}
	rebuilt := make([]*chain.Transaction, 0, len(b.Txs))
	for i, tx := range b.Txs {
		re, ok := checkTx(s, c, fmt.Sprintf("%s tx %d", where, i), tx.Bytes(), tx)
		if !ok { // already reported at the transaction level; the container necessarily differs too
			return nil
		}
		rebuilt = append(rebuilt, re)
	}
	var ctxCopy *block.Context
	if b.BlockContext != nil {
		ctxCopy = &block.Context{PChainHeight: b.BlockContext.PChainHeight}
	}
	var nb *chain.StatelessBlock
	s.Guard("NewStatelessBlock", c, func() {
		nb, _ = chain.NewStatelessBlock(b.Prnt, b.Tmstmp, b.Hght, rebuilt, b.StateRoot, ctxCopy)
	})
	if nb == nil {
		return nil
	}
	if !bytes.Equal(nb.GetBytes(), in) {
		s.Violation("C15/block-reencode-differs", c, "%s: accepted %d bytes decode to a block that re-encodes to %d different bytes", where, len(in), len(nb.GetBytes()))
	}
	return nb
}

// judgeC15 feeds one byte string to one decoder and judges whatever is accepted.
func judgeC15(s sink, c c15Case, in []byte) (accepted bool) {
	s.Eval()
	p := c15Parser(c.Parser)
	reject := func(err error) {
		e := err.Error()
		for _, k := range []string{"padded zeroes", "invalid field order", "zero value", "unknown field", "unexpected wire type", "invalid wire type", "decoded length is invalid", "unexpected EOF", "overflow", "failed to parse action", "failed to parse auth", "nil transaction", "unexpected field size", "invalid bool", "neither true nor false"} {
			if strings.Contains(e, k) {
				s.Count("rejected_"+c.Kind+"/"+strings.ReplaceAll(k, " ", "_"), 1)
				return
			}
		}
		s.Count("rejected_"+c.Kind+"/other", 1)
	}
	s.Guard("decode-"+c.Kind, c, func() {
		switch c.Kind {
		case "tx":
			tx, err := chain.UnmarshalTx(in, p)
			if err != nil {
				reject(err)
				return
			}
			accepted = true
			checkTx(s, c, "UnmarshalTx", in, tx)
			// the rebuilt encoding must be accepted again and decode to the same value
		case "block":
			b, err := chain.UnmarshalBlock(in, p)
			if err != nil {
				reject(err)
				return
			}
			accepted = true
			checkBlock(s, c, "UnmarshalBlock", in, b)
		case "batch":
			ser := &chain.BatchedTransactionSerializer{Parser: p}
			txs, err := ser.Unmarshal(in)
			if err != nil {
				reject(err)
				return
			}
			accepted = true
			var rebuilt []*chain.Transaction
			for i, tx := range txs {
				re, ok := checkTx(s, c, fmt.Sprintf("batch tx %d", i), tx.Bytes(), tx)
				if !ok {
					return
				}
				rebuilt = append(rebuilt, re)
			}
			if out := ser.Marshal(rebuilt); !bytes.Equal(out, in) {
				s.Violation("C15/batch-reencode-differs", c, "accepted %d bytes decode to a batch of %d transactions that re-encodes to %d different bytes", len(in), len(txs), len(out))
			}
		case "result":
			res, err := chain.UnmarshalResult(in)
			if err != nil {
				reject(err)
				return
			}
			accepted = true
			if out := res.Marshal(); !bytes.Equal(out, in) {
				s.Violation("C15/result-reencode-differs", c, "accepted %d bytes decode to a result whose Marshal() gives %d different bytes", len(in), len(out))
			}
			if out := copyResult(res).Marshal(); !bytes.Equal(out, in) {
				s.Violation("C15/result-reencode-differs", c, "accepted %d bytes decode to a result whose field-by-field copy marshals to %d different bytes", len(in), len(out))
			}
		case "results":
			res, err := chain.ParseExecutionResults(in)
			if err != nil {
				reject(err)
				return
			}
			accepted = true
			if out := copyResults(res).Marshal(); !bytes.Equal(out, in) {
				s.Violation("C15/execution-results-reencode-differs", c, "accepted %d bytes decode to execution results that re-encode to %d different bytes", len(in), len(out))
			}
		case "executed":
			eb, err := chain.UnmarshalExecutedBlock(in, p)
			if err != nil {
				reject(err)
				return
			}
			accepted = true
			if out, _ := eb.Marshal(); !bytes.Equal(out, in) {
				s.Violation("C15/executed-block-reencode-differs", c, "accepted %d bytes decode to an executed block whose Marshal() gives %d different bytes", len(in), len(out))
			}
			var nb *chain.StatelessBlock
			if eb.Block != nil {
				nb = checkBlock(s, c, "executed block", eb.Block.GetBytes(), eb.Block)
				if nb == nil {
					return
				}
			}
			fresh := &chain.ExecutedBlock{Block: nb, ExecutionResults: copyResults(eb.ExecutionResults)}
			if out, _ := fresh.Marshal(); !bytes.Equal(out, in) {
				s.Violation("C15/executed-block-reencode-differs", c, "accepted %d bytes decode to an executed block that, rebuilt from its decoded components, re-encodes to %d different bytes", len(in), len(out))
			}
		}
	})
	if accepted {
		s.Count("accepted_"+c.Kind, 1)
	}
	return accepted
}

// ---- valid seeds ----

type c15Seed struct {
	Kind   string
	Parser string
	Bytes  []byte
	// for "same body and signature" judgement of transaction seeds
	Tx *chain.Transaction
}

func genSeedTx(rng *rand.Rand, parser string, nonce uint64) *chain.Transaction {
	var cid ids.ID
	copy(cid[:], randBytes(rng, 32))
	if rng.IntN(8) == 0 {
		cid = ids.Empty
	}
	base := chain.Base{Timestamp: int64(1_700_000_000_000 + rng.IntN(1_000_000)*1000), ChainID: cid, MaxFee: rng.Uint64() >> uint(rng.IntN(64))}
	switch rng.IntN(8) {
	case 0:
		base.Timestamp = 0
	case 1:
		base.Timestamp = -int64(rng.IntN(1 << 30))
	}
	var acts []chain.Action
	var f chain.AuthFactory
	if parser == "morpheusvm" {
		for i, n := 0, 1+rng.IntN(3); i < n; i++ {
			t := &actions.Transfer{Value: rng.Uint64() >> uint(rng.IntN(64)), Memo: randBytes(rng, []int{0, 0, 1, 5, 40, 256}[rng.IntN(6)])}
			copy(t.To[:], randBytes(rng, codec.AddressLen))
			acts = append(acts, t)
		}
		f, _ = realFactory(rng, rng.IntN(3))
	} else {
		for i, n := 0, rng.IntN(4); i < n; i++ {
			a := &chainfx.ProgAction{Nonce: nonce<<8 | uint64(i), Compute: uint64(rng.IntN(5)), Start: -1, End: int64(rng.IntN(3)) - 1}
			for k, nk := 0, rng.IntN(3); k < nk; k++ {
				a.Keys = append(a.Keys, chainfx.KeyDecl{Key: keys.EncodeChunks(randBytes(rng, rng.IntN(3)), uint16(rng.IntN(4))), Perm: state.Permissions(rng.IntN(8))})
			}
			a.Canonicalize()
			for k, no := 0, rng.IntN(3); k < no; k++ {
				a.Ops = append(a.Ops, chainfx.Op{Kind: byte(1 + rng.IntN(5)), Key: randBytes(rng, 1+rng.IntN(3)), Val: randBytes(rng, 1+rng.IntN(6)), N: uint32(rng.IntN(3))})
			}
			acts = append(acts, a)
		}
		if rng.IntN(2) == 0 {
			f, _ = realFactory(rng, rng.IntN(3))
		} else {
			a := chainfx.SpyAddr(rng.IntN(5))
			f = &chainfx.SpyFactory{Auth: chainfx.SpyAuth{ActorAddr: a, SponsorAddr: chainfx.SpyAddr(rng.IntN(5)), Compute: uint64(rng.IntN(9)), Start: -1, End: -1, OK: rng.IntN(2) == 0, Pad: randBytes(rng, rng.IntN(4))}}
		}
	}
	tx, err := chainfx.Tx(base, acts, f)
	if err != nil {
		panic("harness: cannot sign seed transaction: " + err.Error())
	}
	return tx
}

func genResult(rng *rand.Rand) *chain.Result {
	r := &chain.Result{Success: rng.IntN(2) == 0, Error: randBytes(rng, []int{0, 0, 3, 20}[rng.IntN(4)]), Fee: rng.Uint64() >> uint(rng.IntN(65))}
	if len(r.Error) == 0 {
		r.Error = nil
	}
	for i, n := 0, rng.IntN(4); i < n; i++ {
		r.Outputs = append(r.Outputs, randBytes(rng, []int{0, 1, 16, 130}[rng.IntN(4)]))
	}
	if rng.IntN(3) > 0 {
		for d := range r.Units {
			r.Units[d] = rng.Uint64() >> uint(rng.IntN(65))
		}
	}
	return r
}

func genSeed(rng *rand.Rand, nonce uint64) c15Seed {
	kind := c15Kinds[rng.IntN(len(c15Kinds))]
	parser := []string{"morpheusvm", "strict"}[rng.IntN(2)]
	s := c15Seed{Kind: kind, Parser: parser}
	mkTxs := func(max int) []*chain.Transaction {
		var txs []*chain.Transaction
		for i, n := 0, rng.IntN(max+1); i < n; i++ {
			txs = append(txs, genSeedTx(rng, parser, nonce<<4|uint64(i)))
		}
		return txs
	}
	mkBlock := func() *chain.StatelessBlock {
		var parent, root ids.ID
		copy(parent[:], randBytes(rng, 32))
		copy(root[:], randBytes(rng, 32))
		var bctx *block.Context
		if rng.IntN(3) == 0 {
			bctx = &block.Context{PChainHeight: uint64(rng.IntN(1 << 20))}
		}
		b, err := chain.NewStatelessBlock(parent, int64(rng.Uint64()>>uint(1+rng.IntN(60))), rng.Uint64()>>uint(rng.IntN(64)), mkTxs(3), root, bctx)
		if err != nil {
			panic("harness: seed block: " + err.Error())
		}
		return b
	}
	mkResults := func() *chain.ExecutionResults {
		e := &chain.ExecutionResults{}
		for i, n := 0, rng.IntN(4); i < n; i++ {
			e.Results = append(e.Results, genResult(rng))
		}
		for d := 0; d < fees.FeeDimensions; d++ {
			e.UnitPrices[d] = uint64(rng.IntN(1000))
			e.UnitsConsumed[d] = uint64(rng.IntN(1 << 20))
		}
		return e
	}
	switch kind {
	case "tx":
		s.Tx = genSeedTx(rng, parser, nonce)
		s.Bytes = s.Tx.Bytes()
	case "block":
		s.Bytes = mkBlock().GetBytes()
	case "batch":
		s.Bytes = (&chain.BatchedTransactionSerializer{}).Marshal(mkTxs(3))
	case "result":
		s.Bytes = genResult(rng).Marshal()
	case "results":
		s.Bytes = mkResults().Marshal()
	default:
		eb := &chain.ExecutedBlock{Block: mkBlock(), ExecutionResults: mkResults()}
		s.Bytes, _ = eb.Marshal()
	}
	return s
}

// runShard generates and judges n mutants; every input is written to lastCase before it is decoded.
func runShard(s sink, rng *rand.Rand, n int, lastCase *os.File) {
	const poolSize = 48
	var pool []c15Seed
	refresh := func(gen int) {
		pool = pool[:0]
		for i := 0; i < poolSize; i++ {
			sd := genSeed(rng, uint64(gen*poolSize+i))
			c := c15Case{Kind: sd.Kind, Parser: sd.Parser, Input: hx(sd.Bytes), Seed: sd.Kind, Path: "seed"}
			if sd.Tx != nil { // self-check of the independent encoder on a constructed value
				ref := refEncodeTx(sd.Tx.Base.Timestamp, sd.Tx.Base.ChainID, sd.Tx.Base.MaxFee, actionBytesOf(sd.Tx.Actions), sd.Tx.Auth.Bytes())
				if !bytes.Equal(ref, sd.Bytes) {
					s.Violation("C15/tx-encoder-differs-from-wire-format", c, "constructed transaction encodes to %x, independent encoder of the wire format gives %x", sd.Bytes, ref)
				}
				if err := sd.Tx.VerifyAuth(context.Background()); err != nil {
					if sa, ok := sd.Tx.Auth.(*chainfx.SpyAuth); !ok || sa.OK {
						s.Violation("C15/harness-seed-signature", c, "seed transaction does not verify: %v", err)
					}
				}
			}
			logCase(lastCase, c)
			if !judgeC15(s, c, sd.Bytes) {
				s.Count("valid_seeds_rejected_"+sd.Kind, 1)
			} else {
				s.Count("valid_seeds_accepted", 1)
			}
			pool = append(pool, sd)
		}
	}
	for i := 0; i < n; i++ {
		if i%2000 == 0 {
			refresh(i / 2000)
		}
		sd := pool[rng.IntN(len(pool))]
		m := &mutator{rng: rng}
		b := sd.Bytes
		for k, nm := 0, 1+rng.IntN(10)/8; k < nm; k++ { // mostly one mutation, sometimes two
			b = m.mutate(b, 0)
		}
		if bytes.Equal(b, sd.Bytes) {
			continue
		}
		path := strings.Join(m.path, "/")
		decoders := []string{sd.Kind}
		if rng.IntN(20) == 0 { // type confusion: every decoder sees the string
			decoders = c15Kinds
		}
		for _, kind := range decoders {
			parser := sd.Parser
			if rng.IntN(10) == 0 {
				parser = []string{"morpheusvm", "strict"}[rng.IntN(2)]
			}
			c := c15Case{Kind: kind, Parser: parser, Input: hx(b), Seed: sd.Kind, Path: path}
			logCase(lastCase, c)
			if judgeC15(s, c, b) {
				s.Distinct(sd.Kind, ">", kind, "|", parser, "|", path)
				s.Count("accepted_mutants", 1)
				s.Sample(c)
				// two distinct accepted encodings must not share a body and a signature
				if kind == "tx" && sd.Tx != nil {
					if tx, err := chain.UnmarshalTx(b, c15Parser(parser)); err == nil &&
						bytes.Equal(tx.UnsignedBytes(), sd.Tx.UnsignedBytes()) && bytes.Equal(tx.Auth.Bytes(), sd.Tx.Auth.Bytes()) {
						s.Violation("C15/two-encodings-share-body-and-signature", c, "mutant (id %s) and seed (id %s) are distinct accepted encodings with the same signed body and the same auth", tx.GetID(), sd.Tx.GetID())
					}
				}
			}
		}
	}
}

func logCase(f *os.File, c c15Case) {
	if f == nil {
		return
	}
	b, _ := json.Marshal(c)
	b = append(b, '\n')
	_, _ = f.WriteAt(b, 0)
	_ = f.Truncate(int64(len(b)))
}

// TestC15Child is the body of one child process (a shard of the mutation workload).
func TestC15Child(t *testing.T) {
	role, ok := kit.IsChild()
	if !ok || !strings.HasPrefix(role, "c15:") {
		t.Skip("child process of TestC15 only")
	}
	shard, _ := strconv.Atoi(strings.TrimPrefix(role, "c15:"))
	n, _ := strconv.Atoi(os.Getenv("C15_N"))
	seed, _ := strconv.ParseUint(os.Getenv("C15_SEED"), 10, 64)
	out := os.Getenv("C15_OUT")
	last, err := os.Create(out + ".last")
	if err != nil {
		t.Fatalf("cannot create case log: %v", err)
	}
	defer last.Close()
	col := newCollector()
	rng := rand.New(rand.NewPCG(seed, uint64(shard)+0xC15))
	runShard(col, rng, n, last)
	b, err := json.Marshal(col)
	if err != nil {
		t.Fatalf("report: %v", err)
	}
	if err := os.WriteFile(out, b, 0o644); err != nil {
		t.Fatalf("report: %v", err)
	}
}

func TestC15(t *testing.T) {
	r := kit.Start(t, "C15", "exploration")
	r.Rule("valid encodings of transactions (morpheusvm Transfer x ed25519/secp256r1/BLS, and strict programmable actions x spy/real auth), blocks, transaction batches, results, execution results and executed blocks are mutated at a random nesting level (bit flip, truncate, insert/delete/set byte, trailing bytes at that level with outer lengths repaired, duplicated / reordered / dropped / renumbered / unknown fields, changed wire type, non-minimal tag / length / varint, explicit zero-valued field, oversized length, grown or shrunk leaf payload) and fed to UnmarshalTx, UnmarshalBlock, BatchedTransactionSerializer.Unmarshal, UnmarshalResult, ParseExecutionResults, UnmarshalExecutedBlock (5% of the strings to all six) in child processes, each input logged before decoding. Whatever is accepted must re-encode to the identical bytes when rebuilt from its decoded components (NewTransaction / NewStatelessBlock / Marshal of fresh copies, every contained transaction individually), ID = sha256(bytes), UnsignedBytes = independent wire-format encoding of (base, actions), and no accepted mutant of a signed transaction may keep body and signature. Non-trivial = mutant accepted by a decoder; distinct = (seed kind, decoder, parser, mutation path).")
	r.Assume("sha256 and the 40-line independent encoder of the SerializeTx wire format are trusted", "rejecting a valid encoding is not judged (counted as valid_seeds_rejected_*)")
	if rf := r.Replay(); rf != nil && len(rf.Witness) > 0 {
		var c c15Case
		if err := json.Unmarshal(rf.Witness, &c); err == nil && c.Kind != "" {
			in, err := hex.DecodeString(c.Input)
			if err != nil {
				t.Fatalf("replay: %v", err)
			}
			judgeC15(r, c, in)
			r.Finish(0)
			return
		}
	}
	total := r.N(200000, 4000000)
	shards := r.N(4, 16)
	per := total / shards
	dir, err := os.MkdirTemp("", "c15-")
	if err != nil {
		t.Fatalf("tmp: %v", err)
	}
	defer os.RemoveAll(dir)
	var wg sync.WaitGroup
	sem := make(chan struct{}, 4)
	var mu sync.Mutex
	for sh := 0; sh < shards; sh++ {
		wg.Add(1)
		go func(sh int) {
			defer wg.Done()
			sem <- struct{}{}
			defer func() { <-sem }()
			out := filepath.Join(dir, fmt.Sprintf("shard%d.json", sh))
			res := kit.RunChild("TestC15Child", []string{fmt.Sprintf("VERIF_CHILD=c15:%d", sh), "C15_OUT=" + out, fmt.Sprintf("C15_N=%d", per), fmt.Sprintf("C15_SEED=%d", r.Seed())}, 40*time.Minute)
			mu.Lock()
			defer mu.Unlock()
			rep, rerr := os.ReadFile(out)
			if res.TimedOut {
				r.Inconclusive("child shard %d hit the wall-clock watchdog", sh)
				return
			}
			if res.ExitCode != 0 || rerr != nil {
				last, _ := os.ReadFile(out + ".last")
				var c c15Case
				_ = json.Unmarshal(last, &c)
				tail := res.Output
				if len(tail) > 3000 {
					tail = tail[len(tail)-3000:]
				}
				r.Violation("C15/decoder-killed-process", c, "child shard %d died (exit %d) while decoding the logged input; output tail: %s", sh, res.ExitCode, tail)
				return
			}
			col := newCollector()
			if err := json.Unmarshal(rep, col); err != nil {
				r.Inconclusive("child shard %d wrote an unreadable report: %v", sh, err)
				return
			}
			r.EvalN(col.Evals)
			for k, v := range col.Counters {
				r.Count(k, v)
			}
			for k := range col.Shapes {
				r.Distinct(k)
			}
			for _, v := range col.Samples {
				r.Sample(v["case"])
			}
			for k, v := range col.PerKey {
				r.Count("violation_occurrences/"+k, v)
			}
			for _, v := range col.Violations {
				r.Violation(v.Key, v.Witness, "%s", v.Detail)
			}
		}(sh)
	}
	wg.Wait()
	r.Finish(r.N(200, 1000))
}
