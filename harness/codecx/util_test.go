package codecx

import (
	"crypto/sha256"
	"encoding/binary"
	"encoding/hex"
	"encoding/json"
	"fmt"
	"math/rand/v2"
	"runtime/debug"
	"sync"

	"github.com/ava-labs/hypersdk/auth"
	"github.com/ava-labs/hypersdk/chain"
	"github.com/ava-labs/hypersdk/crypto/bls"
	"github.com/ava-labs/hypersdk/crypto/ed25519"
	"github.com/ava-labs/hypersdk/crypto/secp256r1"
	"github.com/ava-labs/hypersdk/zzverif/chainfx"
)

// ---- sink: what a judge reports to (a *kit.Run in-process, a collector in a child process) ----

type sink interface {
	Eval()
	Count(name string, delta int)
	Distinct(parts ...any)
	Violation(key string, witness any, format string, args ...any)
	Guard(where string, witness any, f func())
	Sample(v any)
}

type cViolation struct {
	Key     string          `json:"key"`
	Detail  string          `json:"detail"`
	Witness json.RawMessage `json:"witness"`
}

// collector gathers a child's observations; the parent merges them into its kit.Run.
type collector struct {
	mu         sync.Mutex
	Evals      int              `json:"evals"`
	Counters   map[string]int   `json:"counters"`
	Shapes     map[string]int   `json:"shapes"`
	Violations []cViolation     `json:"violations"`
	PerKey     map[string]int   `json:"per_key"`
	Samples    []map[string]any `json:"samples"`
}

func newCollector() *collector {
	return &collector{Counters: map[string]int{}, Shapes: map[string]int{}, PerKey: map[string]int{}}
}

func (c *collector) Eval() { c.mu.Lock(); c.Evals++; c.mu.Unlock() }
func (c *collector) Count(name string, d int) {
	c.mu.Lock()
	c.Counters[name] += d
	c.mu.Unlock()
}
func (c *collector) Distinct(parts ...any) {
	c.mu.Lock()
	c.Shapes[fmt.Sprint(parts...)]++
	c.mu.Unlock()
}
func (c *collector) Violation(key string, witness any, format string, args ...any) {
	c.mu.Lock()
	defer c.mu.Unlock()
	c.PerKey[key]++
	if c.PerKey[key] > 3 {
		return
	}
	wb, err := json.Marshal(witness)
	if err != nil {
		wb, _ = json.Marshal(fmt.Sprintf("%+v", witness))
	}
	c.Violations = append(c.Violations, cViolation{Key: key, Detail: fmt.Sprintf(format, args...), Witness: wb})
}
func (c *collector) Sample(v any) {
	c.mu.Lock()
	if len(c.Samples) < 3 {
		c.Samples = append(c.Samples, map[string]any{"case": v})
	}
	c.mu.Unlock()
}
func (c *collector) Guard(where string, witness any, f func()) {
	defer func() {
		if p := recover(); p != nil {
			c.Violation("panic/"+where, witness, "panic in %s: %v\n%s", where, p, debug.Stack())
		}
	}()
	f()
}

func sha(b []byte) [32]byte { return sha256.Sum256(b) }

func hx(b []byte) string { return hex.EncodeToString(b) }

func randBytes(rng *rand.Rand, n int) []byte {
	b := make([]byte, n)
	for i := range b {
		b[i] = byte(rng.UintN(256))
	}
	return b
}

// ---- deterministic keys for the three built-in schemes ----

func ed25519Key(rng *rand.Rand) ed25519.PrivateKey { return chainfx.Ed25519Key(rng) }

func secpKey(rng *rand.Rand) secp256r1.PrivateKey {
	var k secp256r1.PrivateKey
	copy(k[:], randBytes(rng, 32))
	k[0] &= 0x7f // below the group order
	k[31] |= 1   // non-zero
	return k
}

func blsKey(rng *rand.Rand) *bls.PrivateKey {
	for {
		s := randBytes(rng, 32)
		s[0] &= 0x3f // below the scalar field order
		s[31] |= 1
		if k, err := bls.PrivateKeyFromBytes(s); err == nil {
			return k
		}
	}
}

func realFactory(rng *rand.Rand, kind int) (chain.AuthFactory, string) {
	switch kind % 3 {
	case 0:
		return auth.NewED25519Factory(ed25519Key(rng)), "ed25519"
	case 1:
		return auth.NewSECP256R1Factory(secpKey(rng)), "secp256r1"
	default:
		return auth.NewBLSFactory(blsKey(rng)), "bls"
	}
}

// ---- a minimal protobuf/canoto wire walker (independent of the canoto library) ----

const (
	wtVarint = 0
	wtI64    = 1
	wtLen    = 2
	wtI32    = 5
)

type pbField struct {
	Num  uint64
	WT   byte
	Hdr  []byte // tag (and, for wtLen, the length varint) exactly as found / as to be written
	Body []byte
}

func uvarint(v uint64) []byte { return binary.AppendUvarint(nil, v) }

// paddedUvarint encodes v with `extra` redundant continuation bytes (non-minimal).
func paddedUvarint(v uint64, extra int) []byte {
	b := uvarint(v)
	for i := 0; i < extra && len(b) < 10; i++ {
		b[len(b)-1] |= 0x80
		b = append(b, 0)
	}
	return b
}

func pbParse(b []byte) ([]pbField, bool) {
	var out []pbField
	for len(b) > 0 {
		tag, n := binary.Uvarint(b)
		if n <= 0 {
			return nil, false
		}
		f := pbField{Num: tag >> 3, WT: byte(tag & 7)}
		rest := b[n:]
		hdr := n
		switch f.WT {
		case wtVarint:
			_, m := binary.Uvarint(rest)
			if m <= 0 {
				return nil, false
			}
			f.Body = rest[:m]
		case wtI64:
			if len(rest) < 8 {
				return nil, false
			}
			f.Body = rest[:8]
		case wtI32:
			if len(rest) < 4 {
				return nil, false
			}
			f.Body = rest[:4]
		case wtLen:
			l, m := binary.Uvarint(rest)
			if m <= 0 || l > uint64(len(rest)-m) {
				return nil, false
			}
			hdr += m
			f.Body = rest[m : m+int(l)]
		default:
			return nil, false
		}
		f.Hdr = b[:hdr]
		b = b[hdr+len(f.Body):]
		out = append(out, f)
	}
	return out, true
}

func pbEncode(fs []pbField) []byte {
	var out []byte
	for _, f := range fs {
		out = append(out, f.Hdr...)
		out = append(out, f.Body...)
	}
	return out
}

func pbTag(num uint64, wt byte) []byte { return uvarint(num<<3 | uint64(wt)) }

// pbFix recomputes the (minimal) header of a field after its body changed.
func pbFix(f *pbField) {
	f.Hdr = pbTag(f.Num, f.WT)
	if f.WT == wtLen {
		f.Hdr = append(f.Hdr, uvarint(uint64(len(f.Body)))...)
	}
}

// ---- structure-aware byte mutator ----

type mutator struct {
	rng  *rand.Rand
	path []string
}

func (m *mutator) note(format string, args ...any) { m.path = append(m.path, fmt.Sprintf(format, args...)) }

// raw mutates bytes without looking at their structure.
func (m *mutator) raw(b []byte) []byte {
	out := append([]byte(nil), b...)
	switch op := m.rng.IntN(6); {
	case op == 0 && len(out) > 0:
		i := m.rng.IntN(len(out))
		out[i] ^= 1 << uint(m.rng.IntN(8))
		m.note("flip")
	case op == 1 && len(out) > 0:
		out = out[:m.rng.IntN(len(out))]
		m.note("truncate")
	case op == 2:
		out = append(out, randBytes(m.rng, 1+m.rng.IntN(3))...)
		m.note("append")
	case op == 3 && len(out) > 0:
		i := m.rng.IntN(len(out))
		out[i] = byte(m.rng.UintN(256))
		m.note("setbyte")
	case op == 4 && len(out) > 1:
		i := m.rng.IntN(len(out))
		out = append(out[:i], out[i+1:]...)
		m.note("delbyte")
	default:
		i := m.rng.IntN(len(out) + 1)
		out = append(out[:i], append([]byte{byte(m.rng.UintN(256))}, out[i:]...)...)
		m.note("insbyte")
	}
	return out
}

// mutate applies one mutation somewhere in the nesting of message b; outer lengths are
// repaired so that the change reaches the decoder of the level it was made at.
func (m *mutator) mutate(b []byte, depth int) []byte {
	fs, ok := pbParse(b)
	if !ok || len(fs) == 0 || depth >= 5 || m.rng.IntN(6) == 0 {
		return m.raw(b)
	}
	var lens []int
	for i, f := range fs {
		if f.WT == wtLen {
			lens = append(lens, i)
		}
	}
	if len(lens) > 0 && m.rng.IntN(100) < 55 {
		i := lens[m.rng.IntN(len(lens))]
		m.note("in(%d)", fs[i].Num)
		fs[i].Body = m.mutate(fs[i].Body, depth+1)
		pbFix(&fs[i])
		return pbEncode(fs)
	}
	i := m.rng.IntN(len(fs))
	switch m.rng.IntN(13) {
	case 0:
		m.note("dup(%d)", fs[i].Num)
		fs = append(fs[:i+1], append([]pbField{fs[i]}, fs[i+1:]...)...)
	case 1:
		j := m.rng.IntN(len(fs))
		m.note("swap(%d,%d)", fs[i].Num, fs[j].Num)
		fs[i], fs[j] = fs[j], fs[i]
	case 2:
		nums := []uint64{0, 7, 9, 15, 16, 1000, 1 << 28, 1<<29 - 1}
		f := pbField{Num: nums[m.rng.IntN(len(nums))], WT: []byte{wtVarint, wtI64, wtLen, wtI32}[m.rng.IntN(4)]}
		switch f.WT {
		case wtVarint:
			f.Body = uvarint(uint64(m.rng.IntN(300)))
		case wtI64:
			f.Body = randBytes(m.rng, 8)
		case wtI32:
			f.Body = randBytes(m.rng, 4)
		default:
			f.Body = randBytes(m.rng, m.rng.IntN(4))
		}
		pbFix(&f)
		m.note("unknown(%d,wt%d)", f.Num, f.WT)
		pos := m.rng.IntN(len(fs) + 1)
		fs = append(fs[:pos], append([]pbField{f}, fs[pos:]...)...)
	case 3:
		m.note("padtag(%d)", fs[i].Num)
		rest := fs[i].Hdr[len(pbTag(fs[i].Num, fs[i].WT)):]
		if len(fs[i].Hdr) < len(pbTag(fs[i].Num, fs[i].WT)) {
			rest = nil
		}
		fs[i].Hdr = append(paddedUvarint(fs[i].Num<<3|uint64(fs[i].WT), 1+m.rng.IntN(2)), rest...)
	case 4:
		if fs[i].WT == wtLen {
			m.note("padlen(%d)", fs[i].Num)
			fs[i].Hdr = append(pbTag(fs[i].Num, wtLen), paddedUvarint(uint64(len(fs[i].Body)), 1+m.rng.IntN(2))...)
		} else if fs[i].WT == wtVarint {
			m.note("padvarint(%d)", fs[i].Num)
			v, _ := binary.Uvarint(fs[i].Body)
			fs[i].Body = paddedUvarint(v, 1+m.rng.IntN(2))
		} else {
			return m.raw(b)
		}
	case 5:
		f := pbField{Num: uint64(1 + m.rng.IntN(6)), WT: []byte{wtVarint, wtI64, wtLen, wtI32}[m.rng.IntN(4)]}
		switch f.WT {
		case wtVarint:
			f.Body = []byte{0}
		case wtI64:
			f.Body = make([]byte, 8)
		case wtI32:
			f.Body = make([]byte, 4)
		}
		pbFix(&f)
		m.note("explicitzero(%d,wt%d)", f.Num, f.WT)
		pos := 0
		for pos < len(fs) && fs[pos].Num < f.Num {
			pos++
		}
		fs = append(fs[:pos], append([]pbField{f}, fs[pos:]...)...)
	case 6:
		if fs[i].WT != wtLen {
			return m.raw(b)
		}
		big := []uint64{uint64(len(fs[i].Body)) + 1, uint64(len(fs[i].Body)) + 100, 1 << 31, 1 << 32, 1<<63 - 1, 1 << 63, ^uint64(0)}
		m.note("oversizelen(%d)", fs[i].Num)
		fs[i].Hdr = append(pbTag(fs[i].Num, wtLen), uvarint(big[m.rng.IntN(len(big))])...)
	case 7:
		m.note("drop(%d)", fs[i].Num)
		fs = append(fs[:i], fs[i+1:]...)
	case 8:
		wts := []byte{wtVarint, wtI64, wtLen, wtI32, 3, 4, 6, 7}
		wt := wts[m.rng.IntN(len(wts))]
		m.note("wiretype(%d:%d->%d)", fs[i].Num, fs[i].WT, wt)
		rest := fs[i].Hdr[len(pbTag(fs[i].Num, fs[i].WT)):]
		fs[i].Hdr = append(pbTag(fs[i].Num, wt), rest...)
	case 9:
		m.note("trailing")
		return append(pbEncode(fs), randBytes(m.rng, 1+m.rng.IntN(3))...)
	case 10: // a leaf payload grows / shrinks / changes with its length repaired
		m.note("leaf(%d)", fs[i].Num)
		fs[i].Body = m.raw(fs[i].Body)
		if fs[i].WT == wtLen {
			pbFix(&fs[i])
		}
	case 11: // payload grows by trailing bytes, length repaired
		if fs[i].WT != wtLen {
			return m.raw(b)
		}
		m.note("grow(%d)", fs[i].Num)
		fs[i].Body = append(append([]byte(nil), fs[i].Body...), randBytes(m.rng, 1+m.rng.IntN(3))...)
		pbFix(&fs[i])
	default: // renumber a field
		nn := uint64(1 + m.rng.IntN(7))
		m.note("renumber(%d->%d)", fs[i].Num, nn)
		rest := fs[i].Hdr[len(pbTag(fs[i].Num, fs[i].WT)):]
		fs[i].Hdr = append(pbTag(nn, fs[i].WT), rest...)
	}
	return pbEncode(fs)
}

// ---- independent reference encoder of the transaction wire format ----
// SerializeTx{1: Base{1: int (zigzag varint) expiry, 2: 32-byte chain id, 3: fixed64 max fee},
//             2: repeated bytes actions, 3: bytes auth}; zero-valued fields are omitted.

func refEncodeTx(ts int64, chainID [32]byte, maxFee uint64, actions [][]byte, authBytes []byte) []byte {
	var base []byte
	if ts != 0 {
		zz := uint64(ts) << 1
		if ts < 0 {
			zz = ^uint64(ts)<<1 | 1
		}
		base = append(base, 0x08)
		base = binary.AppendUvarint(base, zz)
	}
	if chainID != [32]byte{} {
		base = append(base, 0x12, 32)
		base = append(base, chainID[:]...)
	}
	if maxFee != 0 {
		base = append(base, 0x19)
		base = binary.LittleEndian.AppendUint64(base, maxFee)
	}
	var out []byte
	if len(base) != 0 {
		out = append(out, 0x0a)
		out = binary.AppendUvarint(out, uint64(len(base)))
		out = append(out, base...)
	}
	for _, a := range actions {
		out = append(out, 0x12)
		out = binary.AppendUvarint(out, uint64(len(a)))
		out = append(out, a...)
	}
	if len(authBytes) != 0 {
		out = append(out, 0x1a)
		out = binary.AppendUvarint(out, uint64(len(authBytes)))
		out = append(out, authBytes...)
	}
	return out
}
