package codecx

import (
	"bytes"
	"fmt"
	"math/rand/v2"

	blst "github.com/supranational/blst/bindings/go"

	"github.com/ava-labs/hypersdk/crypto/bls"
)

// ---- C17, BLS subgroup part: re-encodings of a valid public key / signature that leave the
// prime-order subgroups ----
//
// E(Fp) has order h1*r and E'(Fp2) has order h2*r (r the prime group order, h1 ~ 2^126,
// h2 ~ 2^507).  For a curve point Q outside the prime-order subgroup, T = r*Q lies in the
// cofactor torsion (order divides h); T pairs trivially with every point of order r, so
//     e(pk + T, H(m)) = e(pk, H(m))         and (for a bilinear pairing)  e(g1, sig + T') = e(g1, sig).
// pk + T is therefore a different 48-byte string that satisfies the verification equation for
// the same message and the same signature as pk: only the subgroup check of the parser
// (KeyValidate / SigValidate) stands between it and a re-encoded transaction.  The same holds
// for the encodings of the point at infinity (0xc0 00..00).

// group order r of BLS12-381 (little endian, as blst's Mult wants it)
var bls381RLE = func() []byte {
	be := mustHex("73eda753299d7d483339d80809a1d80553bda402fffe5bfeffffffff00000001")
	for i, j := 0, len(be)-1; i < j; i, j = i+1, j-1 {
		be[i], be[j] = be[j], be[i]
	}
	return be
}()

func blsInfinity(n int) []byte {
	b := make([]byte, n)
	b[0] = 0xc0
	return b
}

// g1Torsion: a non-trivial point of the cofactor torsion of E(Fp): random x-coordinates until one
// is on the curve and outside G1, times r.
func g1Torsion(s sink, rng *rand.Rand) *blst.P1 {
	for {
		b := randBytes(rng, 48)
		b[0] = 0x80 | (b[0] & 0x3f) // compressed, not infinity, random sign bit (x >= p is rejected by Uncompress)
		s.Count("bls_g1_torsion_candidates_tried", 1)
		q := new(blst.P1Affine).Uncompress(b)
		if q == nil || q.InG1() {
			continue
		}
		var p blst.P1
		p.FromAffine(q)
		t := p.Mult(bls381RLE)
		ta := t.ToAffine()
		if bytes.Equal(ta.Compress(), blsInfinity(48)) || ta.InG1() {
			continue // r*Q = O (cannot happen for Q outside G1, but never trust a construction)
		}
		s.Count("bls_g1_torsion_points_constructed", 1)
		return t
	}
}

// g2Torsion: the same in E'(Fp2).
func g2Torsion(s sink, rng *rand.Rand) *blst.P2 {
	for {
		b := randBytes(rng, 96) // x = c1 | c0, flags in the top bits of c1
		b[0] = 0x80 | (b[0] & 0x3f)
		b[48] &= 0x1f
		s.Count("bls_g2_torsion_candidates_tried", 1)
		q := new(blst.P2Affine).Uncompress(b)
		if q == nil || q.InG2() {
			continue
		}
		var p blst.P2
		p.FromAffine(q)
		t := p.Mult(bls381RLE)
		ta := t.ToAffine()
		if bytes.Equal(ta.Compress(), blsInfinity(96)) || ta.InG2() {
			continue
		}
		s.Count("bls_g2_torsion_points_constructed", 1)
		return t
	}
}

// blsSubgroupMutants: honest BLS auth bytes -> auths whose public key / signature is the honest
// point plus a cofactor-torsion point, or the point at infinity.  nTorsion random torsion points
// per group, each used as +T and -T.
func blsSubgroupMutants(s sink, rng *rand.Rand, orig, msg []byte, nTorsion int) []c17Mutant {
	const pk0, sig0 = 1, 1 + 48
	var out []c17Mutant
	add := func(name, class string, b []byte) {
		if len(b) != len(orig) {
			panic("harness: bls mutant length")
		}
		if !bytes.Equal(b, orig) {
			out = append(out, c17Mutant{name, class, b})
		}
	}
	cp := func() []byte { return append([]byte(nil), orig...) }
	pkA := new(blst.P1Affine).Uncompress(orig[pk0:sig0])
	sigA := new(blst.P2Affine).Uncompress(orig[sig0:])
	if pkA == nil || sigA == nil || !pkA.InG1() || !sigA.InG2() {
		panic("harness: honest BLS auth does not carry points of G1 / G2")
	}
	var pkJ blst.P1
	pkJ.FromAffine(pkA)
	var sigJ blst.P2
	sigJ.FromAffine(sigA)

	for k := 0; k < nTorsion; k++ {
		t := g1Torsion(s, rng)
		for _, v := range []struct {
			name string
			p    *blst.P1
		}{{"+T", pkJ.Add(t)}, {"-T", pkJ.Sub(t)}} {
			alt := v.p.ToAffine()
			enc := alt.Compress()
			// sanity of the construction: on the curve, decodable, outside G1, r*(pk') = r*T' = O is not needed
			if back := new(blst.P1Affine).Uncompress(enc); back == nil || back.InG1() || bytes.Equal(enc, orig[pk0:sig0]) {
				s.Count("bls_construction_failed", 1)
				continue
			}
			// potency (evidence only, nothing is judged here): without key validation the pairing
			// equation holds for pk' with the honest signature
			if bls.Verify(msg, alt, sigA) {
				s.Count("bls_pk_plus_torsion_satisfies_pairing_equation_when_unvalidated", 1)
			} else {
				s.Count("bls_pk_plus_torsion_fails_pairing_equation_when_unvalidated", 1)
			}
			b := cp()
			copy(b[pk0:], enc)
			add(fmt.Sprintf("public-key%s#%d", v.name, k), "out-of-subgroup-public-key", b)
		}
		t2 := g2Torsion(s, rng)
		for _, v := range []struct {
			name string
			p    *blst.P2
		}{{"+T", sigJ.Add(t2)}, {"-T", sigJ.Sub(t2)}} {
			alt := v.p.ToAffine()
			enc := alt.Compress()
			if back := new(blst.P2Affine).Uncompress(enc); back == nil || back.InG2() || bytes.Equal(enc, orig[sig0:]) {
				s.Count("bls_construction_failed", 1)
				continue
			}
			if bls.Verify(msg, pkA, alt) {
				s.Count("bls_sig_plus_torsion_satisfies_pairing_equation_when_unvalidated", 1)
			} else {
				s.Count("bls_sig_plus_torsion_fails_pairing_equation_when_unvalidated", 1)
			}
			b := cp()
			copy(b[sig0:], enc)
			add(fmt.Sprintf("signature%s#%d", v.name, k), "out-of-subgroup-signature", b)
			if k == 0 {
				// both at once: out-of-subgroup key and out-of-subgroup signature
				b2 := cp()
				copy(b2[pk0:], pkJ.Add(t).ToAffine().Compress())
				copy(b2[sig0:], enc)
				add("public-key+T,signature"+v.name, "out-of-subgroup-public-key-and-signature", b2)
			}
		}
	}
	// the point at infinity
	b := cp()
	copy(b[pk0:], blsInfinity(48))
	add("infinity(public-key)", "infinity-public-key", b)
	b = cp()
	copy(b[sig0:], blsInfinity(96))
	add("infinity(signature)", "infinity-signature", b)
	b = cp()
	copy(b[pk0:], blsInfinity(48))
	copy(b[sig0:], blsInfinity(96))
	add("infinity(public-key,signature)", "infinity-public-key-and-signature", b)
	return out
}
