package codecx

import (
	"encoding/hex"
	"encoding/json"
	"fmt"
	"reflect"
	"strings"
	"sync"

	"github.com/ava-labs/hypersdk/examples/morpheusvm/actions"
	"github.com/ava-labs/hypersdk/zzverif/kit"
)

// c29Concurrent: `goroutines` goroutines, each with its own PRNG stream, draw
// (ABI, registered type, value) like the sequential part and push the value through the
// dynamic codec at the same time. Each result is judged by judgeC29 / c29NativeParse, i.e.
// against the native bytes and the value's JSON computed by the same goroutine: nothing is
// asserted that the sequential part does not assert for the same single call.
// The ABI tables (c29ABIs, c29Protos) are read-only here; tallies are goroutine-local and
// merged after Wait.
func c29Concurrent(r *kit.Run, goroutines, steps int) {
	type tally struct {
		judged, refused, zeroField int
		byABI                      map[string]int
		shapes                     []string
	}
	tallies := make([]tally, goroutines)
	start := make(chan struct{})
	var wg sync.WaitGroup
	for g := 0; g < goroutines; g++ {
		wg.Add(1)
		go func(g int) {
			defer wg.Done()
			tl := &tallies[g]
			tl.byABI = map[string]int{}
			rng := r.Rand(fmt.Sprintf("concurrent-%d", g))
			<-start
			for i := 0; i < steps; i++ {
				if i%32 == 0 && r.Violations() >= 20 {
					return
				}
				ps := c29Protos[c29ABINames[rng.IntN(len(c29ABINames))]]
				p := ps[rng.IntN(len(ps))]
				v := p.mk()
				var shape strings.Builder
				fill(reflect.ValueOf(v).Elem(), rng, &shape, 0, rng.IntN(6) == 0)
				if tr, ok := v.(*actions.Transfer); ok && len(tr.Memo) > actions.MaxMemoSize {
					tr.Memo = tr.Memo[:actions.MaxMemoSize]
				}
				native, err, nok := c29NativeGuarded(r, p, v, goroutines)
				if !nok {
					continue
				}
				if err != nil {
					tl.refused++ // no native encoding to compare with
					continue
				}
				js, err := json.Marshal(v)
				if err != nil {
					r.Inconclusive("harness: json of %s: %v", p.key(), err)
					return
				}
				c := c29Case{ABI: p.abi, Type: p.name, Kind: p.kind, JSON: string(js), Bytes: hex.EncodeToString(native), Conc: goroutines}
				judgeC29(r, c)
				if p.abi == "morpheusvm" && p.name == "Transfer" {
					c29NativeParse(r, c)
				}
				tl.judged++
				tl.byABI[p.abi]++
				if p.nFields == 0 {
					tl.zeroField++
				}
				if len(tl.shapes) < 2048 && strings.ContainsAny(shape.String(), "Mmfnr123456789") {
					tl.shapes = append(tl.shapes, p.key()+"|"+shape.String())
				}
			}
		}(g)
	}
	close(start)
	wg.Wait()
	judged, refused, zero := 0, 0, 0
	byABI := map[string]int{}
	for g := range tallies {
		tl := &tallies[g]
		judged += tl.judged
		refused += tl.refused
		zero += tl.zeroField
		for k, n := range tl.byABI {
			byABI[k] += n
		}
		for _, s := range tl.shapes {
			r.Distinct("concurrent|", s)
		}
	}
	r.Count("concurrent_goroutines", goroutines)
	r.Count("concurrent_values_judged", judged)
	r.Count("concurrent_native_encoding_refused", refused)
	r.Count("concurrent_zero_field_values", zero)
	for k, n := range byABI {
		r.Count("concurrent_values_abi_"+k, n)
	}
}
