// Package c29a is type set A of the C29 monitor ("chain A"): registered action and
// output types whose NAMES are shared with the sets c29b, c29c, c29d (and partly with
// morpheusvm: Transfer, TransferResult) but whose field lists differ.
package c29a

import "github.com/ava-labs/hypersdk/codec"

type Leg struct {
	Asset  string `serialize:"true" json:"asset"`
	Amount uint64 `serialize:"true" json:"amount"`
}

// Transfer: morpheusvm's Transfer without the memo.
type Transfer struct {
	To    codec.Address `serialize:"true" json:"to"`
	Value uint64        `serialize:"true" json:"value"`
}

func (*Transfer) GetTypeID() uint8 { return 0 }

type Batch struct {
	Transfers []Transfer `serialize:"true" json:"transfers"`
	Head      Leg        `serialize:"true" json:"head"`
	Legs      []Leg      `serialize:"true" json:"legs"`
}

func (*Batch) GetTypeID() uint8 { return 1 }

// Ping has no serialized field: its native encoding is the type id alone.
type Ping struct{}

func (*Ping) GetTypeID() uint8 { return 2 }

// Lists has only strings and lists: with all of them empty the payload is length prefixes only.
type Lists struct {
	Names []string `serialize:"true" json:"names"`
	Raw   []byte   `serialize:"true" json:"raw"`
	Note  string   `serialize:"true" json:"note"`
	Legs  []Leg    `serialize:"true" json:"legs"`
}

func (*Lists) GetTypeID() uint8 { return 3 }

// One has a single field.
type One struct {
	V uint8 `serialize:"true" json:"v"`
}

func (*One) GetTypeID() uint8 { return 4 }

// ---- outputs ----

type TransferResult struct {
	Ok uint8 `serialize:"true" json:"ok"`
}

func (*TransferResult) GetTypeID() uint8 { return 0 }

// Ack has no serialized field.
type Ack struct{}

func (*Ack) GetTypeID() uint8 { return 1 }

type Receipt struct {
	Legs []Leg `serialize:"true" json:"legs"`
	Code int32 `serialize:"true" json:"code"`
}

func (*Receipt) GetTypeID() uint8 { return 2 }

func Actions() []codec.Typed {
	return []codec.Typed{&Transfer{}, &Batch{}, &Ping{}, &Lists{}, &One{}}
}

func Outputs() []codec.Typed {
	return []codec.Typed{&TransferResult{}, &Ack{}, &Receipt{}}
}
