package codecx

import (
	"fmt"

	"github.com/ava-labs/hypersdk/chain"
	"github.com/ava-labs/hypersdk/codec"
	mvm "github.com/ava-labs/hypersdk/examples/morpheusvm/vm"
)

// ---- C17, address binding under every accessor order ----
//
// The three auths cache their address lazily, so what Actor() / Sponsor() answer may depend on
// which of them is asked first on a given object.  The statement does not: both addresses are
// [type id] | sha256(public key).  Every call order is therefore run on its own FRESH auth object
// (freshly produced by the factory's Sign, freshly parsed from the auth bytes, and the auth of a
// freshly signed / freshly parsed transaction asked through Transaction.GetSponsor()).

type c17AddrCase struct {
	Scheme string   `json:"scheme"`
	Auth   string   `json:"valid_auth"`
	Msg    string   `json:"msg"`
	Source string   `json:"fresh_auth_object_from"`
	Order  string   `json:"call_order"`
	Got    []string `json:"answers"`
	Want   string   `json:"type_id_then_sha256_of_public_key"`
}

// call orders on one fresh object: S = Sponsor(), A = Actor()
var c17AddrOrders = []string{"SSAAS", "AASSA", "SASA", "ASAS", "S", "A"}

// judgeAddressOrders: msg is what the factory signs; raw the honest auth bytes (source of the
// public key bytes and of the freshly parsed objects); td, if not nil, the transaction data whose
// unsigned bytes msg is.
func judgeAddressOrders(s sink, scheme string, f chain.AuthFactory, raw, msg []byte, td *chain.TransactionData) {
	id := schemeID[scheme]
	h := sha(raw[1 : 1+pkLen[scheme]])
	want := codec.Address(append([]byte{id}, h[:]...))

	type source struct {
		name  string
		fresh func() (sponsor, actor func() codec.Address)
	}
	fromAuth := func(a chain.Auth) (func() codec.Address, func() codec.Address) { return a.Sponsor, a.Actor }
	sources := []source{
		{"factory.Sign", func() (func() codec.Address, func() codec.Address) {
			if f == nil {
				return nil, nil // replay of a witness: no signing key
			}
			a, err := f.Sign(msg)
			if err != nil {
				panic("harness: sign: " + err.Error())
			}
			return fromAuth(a)
		}},
		{"AuthParser.Unmarshal", func() (func() codec.Address, func() codec.Address) {
			a, err := parseAuth(raw)
			if err != nil {
				return nil, nil // judged by the round-trip part
			}
			return fromAuth(a)
		}},
	}
	if td != nil {
		// the sponsor as the chain asks for it: Transaction.GetSponsor() on a fresh transaction
		sources = append(sources,
			source{"TransactionData.Sign,tx.GetSponsor/tx.Auth.Actor", func() (func() codec.Address, func() codec.Address) {
				tx, err := td.Sign(f)
				if err != nil {
					panic("harness: sign: " + err.Error())
				}
				return tx.GetSponsor, tx.Auth.Actor
			}},
			source{"UnmarshalTx,tx.GetSponsor/tx.Auth.Actor", func() (func() codec.Address, func() codec.Address) {
				txBytes := refEncodeTx(td.Base.Timestamp, td.Base.ChainID, td.Base.MaxFee, actionBytesOf(td.Actions), raw)
				tx, err := chain.UnmarshalTx(txBytes, mvm.Parser)
				if err != nil {
					return nil, nil // the transaction codec is judged elsewhere (C15)
				}
				return tx.GetSponsor, tx.Auth.Actor
			}},
			// a transaction without actions: nothing in the transaction asks for the actor
			source{"zero-action TransactionData.Sign,tx.GetSponsor/tx.Auth.Actor", func() (func() codec.Address, func() codec.Address) {
				td0 := chain.NewTxData(td.Base, nil)
				tx, err := td0.Sign(f)
				if err != nil {
					return nil, nil // the statement does not say such a transaction can be built
				}
				return tx.GetSponsor, tx.Auth.Actor
			}},
		)
	}
	for _, src := range sources {
		for _, order := range c17AddrOrders {
			c := c17AddrCase{Scheme: scheme, Auth: hx(raw), Msg: hx(msg), Source: src.name, Order: order, Want: hx(want[:])}
			s.Eval()
			s.Guard("auth-address-order", c, func() {
				sponsor, actor := src.fresh()
				if sponsor == nil {
					s.Count("addr_orders_fresh_object_unavailable", 1)
					return
				}
				answers := make([]codec.Address, len(order))
				for i, call := range order {
					if call == 'S' {
						answers[i] = sponsor()
					} else {
						answers[i] = actor()
					}
					c.Got = append(c.Got, string(call)+"="+hx(answers[i][:]))
				}
				s.Count("addr_orders_checked", 1)
				s.Distinct(scheme, "|address-order|", src.name, "|", order)
				s.Count("addr_orders_calls", len(order))
				s.Count(fmt.Sprintf("addr_orders/%s/first=%c", scheme, order[0]), 1)
				for i, got := range answers {
					if got == want {
						continue
					}
					fn, other := "Sponsor", "Actor"
					if order[i] == 'A' {
						fn, other = "Actor", "Sponsor"
					}
					what := "is not type id | sha256(public key)"
					if got[0] != id {
						what = fmt.Sprintf("does not start with the scheme's type id %d", id)
					}
					key := "address-wrong-after-earlier-calls"
					switch {
					case i == 0 || allCalls(order[:i], order[i]):
						// nothing but the same accessor was called on this object before
						key = fmt.Sprintf("%s-before-%s-wrong-address", lower(fn), lower(other))
					case got != answers[firstIndex(order, order[i])]:
						key = "address-changes-between-calls"
					}
					s.Violation("C17/"+scheme+"/"+key, c, "%s: call %d (%s()) of order %s on a fresh auth object from %s = %x %s; want %x", scheme, i+1, fn, order, src.name, got[:], what, want[:])
					return
				}
			})
		}
	}
}

func allCalls(prefix string, c byte) bool {
	for i := 0; i < len(prefix); i++ {
		if prefix[i] != c {
			return false
		}
	}
	return true
}

func firstIndex(order string, c byte) int {
	for i := 0; i < len(order); i++ {
		if order[i] == c {
			return i
		}
	}
	return 0
}

func lower(s string) string {
	if s == "Sponsor" {
		return "sponsor"
	}
	return "actor"
}
