// Package c29c is type set C of the C29 monitor: same type names as c29a, c29b, c29d
// with other field kinds (signed, fixed arrays, strings instead of bytes) and orders.
package c29c

import "github.com/ava-labs/hypersdk/codec"

type Leg struct {
	Asset  [4]uint8 `serialize:"true" json:"asset"`
	Amount int32    `serialize:"true" json:"amount"`
	Tags   []string `serialize:"true" json:"tags"`
}

type Transfer struct {
	Memo  string        `serialize:"true" json:"memo"`
	To    codec.Address `serialize:"true" json:"to"`
	Value int64         `serialize:"true" json:"value"`
	Legs  []Leg         `serialize:"true" json:"legs"`
}

func (*Transfer) GetTypeID() uint8 { return 0 }

type Batch struct {
	Legs      [2]Leg     `serialize:"true" json:"legs"`
	Transfers []Transfer `serialize:"true" json:"transfers"`
	Count     uint16     `serialize:"true" json:"count"`
}

func (*Batch) GetTypeID() uint8 { return 1 }

// Ping has no serialized field (as in c29a).
type Ping struct{}

func (*Ping) GetTypeID() uint8 { return 2 }

type Lists struct {
	Note  string   `serialize:"true" json:"note"`
	Names []string `serialize:"true" json:"names"`
}

func (*Lists) GetTypeID() uint8 { return 3 }

type One struct {
	V []byte `serialize:"true" json:"v"`
}

func (*One) GetTypeID() uint8 { return 4 }

// ---- outputs ----

// TransferResult: morpheusvm's fields in the opposite order.
type TransferResult struct {
	ReceiverBalance uint64 `serialize:"true" json:"receiver_balance"`
	SenderBalance   uint64 `serialize:"true" json:"sender_balance"`
}

func (*TransferResult) GetTypeID() uint8 { return 0 }

// Ack has no serialized field (as in c29a).
type Ack struct{}

func (*Ack) GetTypeID() uint8 { return 1 }

type Receipt struct {
	Note string `serialize:"true" json:"note"`
}

func (*Receipt) GetTypeID() uint8 { return 2 }

func Actions() []codec.Typed {
	return []codec.Typed{&Transfer{}, &Batch{}, &Ping{}, &Lists{}, &One{}}
}

func Outputs() []codec.Typed {
	return []codec.Typed{&TransferResult{}, &Ack{}, &Receipt{}}
}
