package codecx

import (
	"bytes"
	"context"
	"encoding/hex"
	"encoding/json"
	"fmt"
	"math/big"
	"math/rand/v2"
	"os"
	"path/filepath"
	"strconv"
	"strings"
	"sync"
	"testing"
	"time"

	"github.com/ava-labs/avalanchego/ids"

	"github.com/ava-labs/hypersdk/auth"
	"github.com/ava-labs/hypersdk/chain"
	"github.com/ava-labs/hypersdk/codec"
	"github.com/ava-labs/hypersdk/examples/morpheusvm/actions"
	mvm "github.com/ava-labs/hypersdk/examples/morpheusvm/vm"
	"github.com/ava-labs/hypersdk/zzverif/kit"
)

// ---- C17: signatures non-malleable, addresses bound to the key ----

type c17Case struct {
	Scheme   string `json:"scheme"`
	Msg      string `json:"msg"`
	Orig     string `json:"valid_auth"`
	Mutant   string `json:"mutant_auth"`
	Mutation string `json:"mutation"`
}

var (
	edL, _     = new(big.Int).SetString("7237005577332262213973186563042994240857116359379907606001950938285454250989", 10) // 2^252 + 27742317777372353535851937790883648493
	edP        = new(big.Int).Sub(new(big.Int).Lsh(big.NewInt(1), 255), big.NewInt(19))
	p256N, _   = new(big.Int).SetString("ffffffff00000000ffffffffffffffffbce6faada7179e84f3b9cac2fc632551", 16)
	bls381P, _ = new(big.Int).SetString("1a0111ea397fe69a4b1ba7b6434bacd764774b84f38512bf6730d2a0f6b0f6241eabfffeb153ffffb9feffffffffaaab", 16)
)

var schemeID = map[string]uint8{"ed25519": auth.ED25519ID, "secp256r1": auth.SECP256R1ID, "bls": auth.BLSID}

// layout of the three auth encodings: [type id][public key][signature]
var pkLen = map[string]int{"ed25519": 32, "secp256r1": 33, "bls": 48}

func leToBig(b []byte) *big.Int {
	r := make([]byte, len(b))
	for i := range b {
		r[len(b)-1-i] = b[i]
	}
	return new(big.Int).SetBytes(r)
}

func bigToLE(v *big.Int, n int) []byte {
	be := v.FillBytes(make([]byte, n))
	for i, j := 0, n-1; i < j; i, j = i+1, j-1 {
		be[i], be[j] = be[j], be[i]
	}
	return be
}

type c17Mutant struct {
	name  string // specific mutation
	class string // classification used in violation keys
	b     []byte
}

func region(scheme string, byteIdx int) string {
	switch {
	case byteIdx == 0:
		return "type-id"
	case byteIdx <= pkLen[scheme]:
		return "public-key"
	default:
		return "signature"
	}
}

// mutantsOf lists the alternative encodings of one honestly produced auth.
func mutantsOf(scheme string, orig []byte, rng *rand.Rand, allBits bool) []c17Mutant {
	var out []c17Mutant
	add := func(name, class string, b []byte) {
		if !bytes.Equal(b, orig) {
			out = append(out, c17Mutant{name, class, b})
		}
	}
	cp := func() []byte { return append([]byte(nil), orig...) }
	pk0 := 1
	sig0 := 1 + pkLen[scheme]
	// every single-bit flip (or a sample of them)
	for i := 0; i < len(orig)*8; i++ {
		if !allBits && rng.IntN(8) != 0 {
			continue
		}
		b := cp()
		b[i/8] ^= 1 << uint(i%8)
		add(fmt.Sprintf("bitflip(%d)", i), "bitflip-"+region(scheme, i/8), b)
	}
	// framing
	add("trailing-zero", "trailing-byte", append(cp(), 0))
	add("trailing-byte", "trailing-byte", append(cp(), byte(rng.UintN(256))))
	add("leading-byte", "leading-byte", append([]byte{orig[0]}, orig...))
	add("truncated", "truncated", orig[:len(orig)-1])
	for _, id := range []uint8{0, 1, 2, 3, 255} {
		b := cp()
		b[0] = id
		add(fmt.Sprintf("typeid(%d)", id), "wrong-type-id", b)
	}
	switch scheme {
	case "ed25519":
		// s + k*l for every k that still fits into 256 bits
		s := leToBig(orig[sig0+32:])
		for k := int64(1); ; k++ {
			v := new(big.Int).Add(s, new(big.Int).Mul(big.NewInt(k), edL))
			if v.BitLen() > 256 {
				break
			}
			b := cp()
			copy(b[sig0+32:], bigToLE(v, 32))
			add(fmt.Sprintf("s+%d*l", k), "s-plus-multiple-of-group-order", b)
		}
		// sign bit of R and of A, and y+p re-encodings where they fit into 255 bits
		for _, pt := range []struct {
			name string
			off  int
		}{{"A", pk0}, {"R", sig0}} {
			b := cp()
			b[pt.off+31] ^= 0x80
			add("signbit("+pt.name+")", "point-sign-bit", b)
			y := leToBig(orig[pt.off : pt.off+32])
			sign := y.Bit(255)
			y.SetBit(y, 255, 0)
			if yp := new(big.Int).Add(y, edP); yp.BitLen() <= 255 {
				yp.SetBit(yp, 255, sign)
				b := cp()
				copy(b[pt.off:], bigToLE(yp, 32))
				add("y+p("+pt.name+")", "non-canonical-point", b)
			}
		}
	case "secp256r1":
		r := new(big.Int).SetBytes(orig[sig0 : sig0+32])
		s := new(big.Int).SetBytes(orig[sig0+32:])
		b := cp()
		copy(b[sig0+32:], new(big.Int).Sub(p256N, s).FillBytes(make([]byte, 32)))
		add("(r,n-s)", "high-s", b)
		for _, v := range []struct {
			name string
			val  *big.Int
			off  int
		}{{"r+n", new(big.Int).Add(r, p256N), sig0}, {"s+n", new(big.Int).Add(s, p256N), sig0 + 32}} {
			if v.val.BitLen() <= 256 {
				b := cp()
				copy(b[v.off:], v.val.FillBytes(make([]byte, 32)))
				add(v.name, "scalar-plus-group-order", b)
			}
		}
		for _, pfx := range []byte{2, 3, 4, 6, 7, 0} {
			b := cp()
			b[pk0] = pfx
			add(fmt.Sprintf("prefix(%02x)", pfx), "public-key-prefix", b)
		}
	case "bls":
		for _, fl := range []struct {
			name string
			mask byte
		}{{"compression", 0x80}, {"infinity", 0x40}, {"sign", 0x20}} {
			for _, pt := range []struct {
				name string
				off  int
			}{{"public-key", pk0}, {"signature", sig0}} {
				b := cp()
				b[pt.off] ^= fl.mask
				add("flag-"+fl.name+"("+pt.name+")", "flag-"+fl.name+"-"+pt.name, b)
			}
		}
		// x + p re-encodings of the field elements (G1: x; G2: c1 | c0) where they fit into 381 bits
		for _, fe := range []struct {
			name string
			off  int
		}{{"public-key.x", pk0}, {"signature.x.c1", sig0}, {"signature.x.c0", sig0 + 48}} {
			raw := append([]byte(nil), orig[fe.off:fe.off+48]...)
			flags := byte(0)
			if fe.name != "signature.x.c0" {
				flags = raw[0] & 0xe0
				raw[0] &= 0x1f
			}
			x := new(big.Int).SetBytes(raw)
			if xp := new(big.Int).Add(x, bls381P); xp.BitLen() <= 381 || (fe.name == "signature.x.c0" && xp.BitLen() <= 384) {
				enc := xp.FillBytes(make([]byte, 48))
				enc[0] |= flags
				b := cp()
				copy(b[fe.off:], enc)
				add("x+p("+fe.name+")", "non-canonical-field-element", b)
			}
		}
	}
	return out
}

func parseAuth(b []byte) (chain.Auth, error) { return mvm.AuthParser.Unmarshal(b) }

// judgeAuthMutant: an encoding different from the honest one must not parse-and-verify.
func judgeAuthMutant(s sink, c c17Case, class string) string {
	msg, _ := hex.DecodeString(c.Msg)
	mut, _ := hex.DecodeString(c.Mutant)
	s.Eval()
	outcome := "panic"
	s.Guard("auth-parse-verify", c, func() {
		a, err := parseAuth(mut)
		if err != nil {
			outcome = "parse-rejected"
			return
		}
		if err := a.Verify(context.Background(), msg); err != nil {
			outcome = "verify-rejected"
			return
		}
		outcome = "verified"
		s.Violation("C17/"+c.Scheme+"/"+class+"-verifies", c, "%s: auth bytes differing from the honest encoding (%s) parse and verify for the same message (re-encodes to the honest bytes: %v)", c.Scheme, c.Mutation, bytes.Equal(a.Bytes(), mustHex(c.Orig)))
	})
	s.Count("mutants_"+outcome, 1)
	// every parse entry point: rejected, or the parsed auth is usable (c17_field_test.go)
	// (single-bit flips: verified above through AuthParser.Unmarshal, which dispatches to the same parser)
	judgeMutantUsable(s, c, class, !strings.HasPrefix(class, "bitflip-"))
	return outcome
}

func mustHex(s string) []byte { b, _ := hex.DecodeString(s); return b }

// judgeValidAuth: round trip and address binding of an honestly produced auth.
func judgeValidAuth(s sink, scheme string, f chain.AuthFactory, a chain.Auth, msg []byte) {
	c := c17Case{Scheme: scheme, Msg: hx(msg), Orig: hx(a.Bytes()), Mutation: "none"}
	s.Eval()
	s.Guard("auth-roundtrip", c, func() {
		raw := a.Bytes()
		id := schemeID[scheme]
		if len(raw) == 0 || raw[0] != id {
			s.Violation("C17/"+scheme+"/encoding-type-id", c, "auth encoding does not start with the scheme's type id %d", id)
			return
		}
		back, err := parseAuth(raw)
		if err != nil {
			s.Violation("C17/"+scheme+"/roundtrip-rejected", c, "Unmarshal(Bytes()) failed: %v", err)
			return
		}
		if !bytes.Equal(back.Bytes(), raw) {
			s.Violation("C17/"+scheme+"/roundtrip-differs", c, "Unmarshal(Bytes()).Bytes() = %x", back.Bytes())
		}
		if err := back.Verify(context.Background(), msg); err != nil {
			s.Violation("C17/"+scheme+"/roundtrip-does-not-verify", c, "honest signature does not verify after Unmarshal(Bytes()): %v", err)
		}
		// the address is [type id] | sha256(public key bytes)
		pk := raw[1 : 1+pkLen[scheme]]
		h := sha(pk)
		want := codec.Address(append([]byte{id}, h[:]...))
		for name, got := range map[string]codec.Address{"Actor": a.Actor(), "Sponsor": a.Sponsor(), "parsed Actor": back.Actor(), "parsed Sponsor": back.Sponsor(), "factory Address": f.Address()} {
			if got[0] != id {
				s.Violation("C17/"+scheme+"/address-type-id", c, "%s() = %x does not start with type id %d", name, got, id)
			} else if got != want {
				s.Violation("C17/"+scheme+"/address-not-from-public-key", c, "%s() = %x, want type id | sha256(public key) = %x", name, got, want)
			}
		}
		if a.GetTypeID() != id {
			s.Violation("C17/"+scheme+"/type-id", c, "GetTypeID() = %d, want %d", a.GetTypeID(), id)
		}
	})
	s.Count("valid_auths_checked", 1)
}

// runC17Shard: nAuth honestly signed auths of one scheme, all their mutants.
func runC17Shard(s sink, rng *rand.Rand, scheme string, nAuth int, last *os.File) {
	kind := map[string]int{"ed25519": 0, "secp256r1": 1, "bls": 2}[scheme]
	seenAddr := map[codec.Address]string{}
	var prevOrig []byte // the previous honest auth of this shard: source of a foreign valid key / signature
	// BLS: further honest auths that get the (cheap) subgroup re-encodings only
	total := nAuth
	if scheme == "bls" {
		total += 6 * nAuth
	}
	for i := 0; i < total; i++ {
		f, _ := realFactory(rng, kind)
		var cid ids.ID
		copy(cid[:], randBytes(rng, 32))
		// message: the unsigned bytes of a real transaction, or arbitrary bytes (incl. empty)
		var msg []byte
		var tx *chain.Transaction
		var txData *chain.TransactionData
		if rng.IntN(3) > 0 {
			t := &actions.Transfer{Value: 1 + rng.Uint64()>>uint(rng.IntN(63)), Memo: randBytes(rng, rng.IntN(40))}
			copy(t.To[:], randBytes(rng, codec.AddressLen))
			td := chain.NewTxData(chain.Base{Timestamp: int64(1_700_000_000_000 + rng.IntN(1000)*1000), ChainID: cid, MaxFee: uint64(rng.IntN(1 << 30))}, []chain.Action{t})
			var err error
			tx, err = td.Sign(f)
			if err != nil {
				panic("harness: sign: " + err.Error())
			}
			msg = td.UnsignedBytes()
			txData = &td
		} else {
			msg = randBytes(rng, []int{0, 1, 32, 200}[rng.IntN(4)])
		}
		var a chain.Auth
		if tx != nil {
			a = tx.Auth
		} else {
			var err error
			a, err = f.Sign(msg)
			if err != nil {
				panic("harness: sign: " + err.Error())
			}
		}
		judgeValidAuth(s, scheme, f, a, msg)
		judgeAddressOrders(s, scheme, f, a.Bytes(), msg, txData)
		// the address is determined by the public key: same key -> same address, other key -> other address
		a2, err := f.Sign(append([]byte("another message"), msg...))
		if err == nil && (a2.Actor() != a.Actor() || a2.Sponsor() != a.Sponsor()) {
			s.Violation("C17/"+scheme+"/address-not-determined-by-key", c17Case{Scheme: scheme, Orig: hx(a.Bytes()), Mutant: hx(a2.Bytes())}, "two auths of one key have different addresses")
		}
		pkHex := hx(a.Bytes()[1 : 1+pkLen[scheme]])
		if other, ok := seenAddr[a.Actor()]; ok && other != pkHex {
			s.Violation("C17/"+scheme+"/address-collision", c17Case{Scheme: scheme, Orig: hx(a.Bytes())}, "two different public keys map to one address")
		}
		seenAddr[a.Actor()] = pkHex

		orig := a.Bytes()
		// positive control of the usability oracle: the honest encoding through every entry point
		judgeMutantUsable(s, c17Case{Scheme: scheme, Msg: hx(msg), Orig: hx(orig), Mutant: hx(orig), Mutation: "none"}, "honest", true)
		var muts []c17Mutant
		if i < nAuth {
			muts = mutantsOf(scheme, orig, rng, i%2 == 0)
		}
		// one field damaged, the other left valid (BLS: all public-key bits where mutantsOf only sampled them)
		foreign := prevOrig
		prevOrig = orig
		fd := fieldDamageMutants(s, scheme, orig, foreign, rng, scheme == "bls" && i < nAuth && i%2 != 0) // ed25519 / secp256r1 keys are not validated at parse
		s.Count("field_damage_mutants/"+scheme, len(fd))
		muts = append(muts, fd...)
		if scheme == "bls" {
			muts = append(muts, blsSubgroupMutants(s, rng, orig, msg, 3)...)
		}
		for _, m := range muts {
			c := c17Case{Scheme: scheme, Msg: hx(msg), Orig: hx(orig), Mutant: hx(m.b), Mutation: m.name}
			logC17(last, c)
			outcome := judgeAuthMutant(s, c, m.class)
			if outcome != "parse-rejected" {
				s.Distinct(scheme, "|", m.name, "|", outcome)
				s.Sample(map[string]string{"scheme": scheme, "mutation": m.name, "outcome": outcome})
			}
			s.Count(scheme+"/"+m.class+"/"+outcome, 1)
			// the same mutant inside the transaction: a different transaction id must not verify
			if tx != nil && !strings.HasPrefix(m.class, "bitflip") {
				raw := refEncodeTx(tx.Base.Timestamp, tx.Base.ChainID, tx.Base.MaxFee, actionBytesOf(tx.Actions), m.b)
				s.Guard("tx-with-mutant-auth", c, func() {
					mt, err := chain.UnmarshalTx(raw, mvm.Parser)
					if err != nil {
						s.Count("tx_mutants_parse-rejected", 1)
						return
					}
					// the auth of the parsed transaction must be usable as well
					judgeParsedAuth(s, c, m.class, "chain.UnmarshalTx", mt.Auth, m.b, false) // VerifyAuth follows
					c17Call(s, c, "chain.UnmarshalTx", "Transaction.GetSponsor()", func() { _ = mt.GetSponsor() })
					if err := mt.VerifyAuth(context.Background()); err != nil {
						s.Count("tx_mutants_verify-rejected", 1)
						return
					}
					if mt.GetID() != tx.GetID() {
						s.Violation("C17/"+scheme+"/"+m.class+"-changes-tx-id", c, "transaction %s re-encoded with mutated auth (%s) parses, verifies and has the different id %s", tx.GetID(), m.name, mt.GetID())
					}
				})
			}
		}
	}
}

func logC17(f *os.File, c c17Case) {
	if f == nil {
		return
	}
	b, _ := json.Marshal(c)
	b = append(b, '\n')
	_, _ = f.WriteAt(b, 0)
	_ = f.Truncate(int64(len(b)))
}

func TestC17Child(t *testing.T) {
	role, ok := kit.IsChild()
	if !ok || !strings.HasPrefix(role, "c17:") {
		t.Skip("child process of TestC17 only")
	}
	parts := strings.Split(role, ":") // c17:<scheme>:<shard>
	shard, _ := strconv.Atoi(parts[2])
	n, _ := strconv.Atoi(os.Getenv("C17_N"))
	seed, _ := strconv.ParseUint(os.Getenv("C17_SEED"), 10, 64)
	out := os.Getenv("C17_OUT")
	last, err := os.Create(out + ".last")
	if err != nil {
		t.Fatalf("cannot create case log: %v", err)
	}
	defer last.Close()
	col := newCollector()
	rng := rand.New(rand.NewPCG(seed, uint64(shard)<<8|uint64(len(parts[1]))+0xC17))
	runC17Shard(col, rng, parts[1], n, last)
	b, err := json.Marshal(col)
	if err != nil {
		t.Fatalf("report: %v", err)
	}
	if err := os.WriteFile(out, b, 0o644); err != nil {
		t.Fatalf("report: %v", err)
	}
}

func TestC17(t *testing.T) {
	r := kit.Start(t, "C17", "exploration")
	r.Rule("for honestly generated keys and signatures of ed25519, secp256r1 and BLS (messages: unsigned bytes of real transfer transactions and arbitrary byte strings incl. empty), every alternative auth encoding of a catalog is parsed and verified for the same message: all single-bit flips of the auth bytes (every bit for every second auth, a 1/8 sample otherwise), trailing/leading/truncated bytes, wrong type ids; ed25519: s+k*l for every k that fits, sign bits of R and A, y+p re-encodings where representable; secp256r1: (r,n-s), r+n/s+n where < 2^256, every public-key prefix; BLS: compression/infinity/sign flag of key and signature (sign flip = negated signature), x+p re-encodings of each field element where representable. Non-bit-flip mutants are also re-embedded into the transaction (parse + VerifyAuth, id must not change). BLS subgroup re-encodings (for every BLS auth above and for 6x as many further honest BLS auths): public key + T and public key - T for 3 random non-trivial cofactor-torsion points T of E(Fp) per auth (random x-coordinates until a curve point outside G1 is found, times the group order r; T != O and pk' outside G1 are confirmed; a counter records that the pairing equation holds for pk' with the honest signature when the key is not validated), signature +- T' for 3 random torsion points of E'(Fp2), key and signature both shifted, the point-at-infinity encoding c0 00..00 as public key, as signature and as both. None may verify. Plus, per honest auth: Unmarshal(Bytes()) round trip, verification after the round trip, Actor/Sponsor/factory address = type id | sha256(public key); address binding under every accessor order: on a FRESH auth object per call order (orders SSAAS, AASSA, SASA, ASAS, S, A with S = Sponsor(), A = Actor(); objects freshly produced by factory.Sign, freshly parsed by AuthParser.Unmarshal, and - through Transaction.GetSponsor() / tx.Auth.Actor() - the auth of a freshly signed transaction, of a freshly parsed transaction and of a freshly signed transaction without actions) every answer must equal type id | sha256(public key bytes). One-field damage (every honest auth of all three schemes, incl. the further BLS auths): only the public-key field or only the signature field of the honest encoding is replaced, the other field staying valid (the construction asserts that no byte outside the field changes): all-zero, all-0xff, uniformly random, the field of another honest auth (a foreign valid key / signature), byte-reversed, rotated by one byte, truncated to 0 / 1 / half / all-but-one / a random number of bytes (head or tail kept) and padded back with 00 or ff, 14 first-byte and 4 last-byte values, 6 random two-bit flips; BLS in addition: all 8 combinations of the compression/infinity/sign flags over the honest x, 8 encodings around the point at infinity (c0 00.., 40 00.., e0 00.., 80 00.., 00 00.., infinity flag with non-zero x), x = p-1 / p / p+1 / 2^381-1 with either sign flag, the x closest above the honest x that is off the curve and the closest that is on the curve outside the prime-order subgroup, a random off-curve x and a random on-curve non-subgroup x (labelled with blst), and every single-bit flip of the public key for the auths where the general catalog only samples bit flips. Every mutant of the whole catalog (and, as positive control, the honest encoding) goes through AuthParser.Unmarshal and through the scheme's own auth.UnmarshalED25519 / UnmarshalSECP256R1 / UnmarshalBLS, the non-bit-flip ones also through chain.UnmarshalTx; each entry point must reject it or return an auth that is usable: no call on it panics (key C17/parsed-auth-unusable; each of Bytes, Sponsor, Actor, Sponsor, Actor, GetTypeID, Verify, Transaction.GetSponsor is run under its own recover), Bytes() equals the input bytes, Sponsor()/Actor() equal first input byte | sha256(public-key bytes of the input), GetTypeID() equals the first byte, and Verify(msg) succeeds only for the honest encoding. Non-trivial = mutant that parses (reaches signature verification); distinct = (scheme, mutation, outcome). Low-S boundary part (secp256r1): for 3000 / 150000 messages a key is constructed (nonce k and s chosen, d = (s*k - z)/r mod n) such that (r, s) is a valid signature with s at a chosen position: (n-1)/2 +- {0,1,2,3, 2^j for j = 2..254}, 1, 2, n-1, n-2, 2^255 +- 1, (p-1)/2 +- 1, random offsets of every magnitude, uniform s; a math/big + crypto/elliptic reference verification confirms (r, s) and (r, n-s) are valid ECDSA, then secp256r1.Verify, auth.SECP256R1.Verify and AuthParser.Unmarshal+Verify must accept exactly the form with s <= (n-1)/2, and of the two transactions carrying the two forms at most one may verify; distinct = (position of s, outcome).")
	r.Assume("adversarially chosen small-order ed25519 public keys (accepted by ZIP-215 by design) are not alternative encodings of an honest signature and are out of scope", "sha256 as the address hash is taken from the documentation of codec.CreateAddress / auth.New*Address", "of the two valid forms (r, s), (r, n-s) the accepted one is the low one, s <= (n-1)/2 (documented at secp256r1.Verify / BIP-62 low-S; it is the form Sign emits)")
	if rf := r.Replay(); rf != nil && len(rf.Witness) > 0 {
		var lw c17LowS
		if err := json.Unmarshal(rf.Witness, &lw); err == nil && lw.Kind == c17LowSKind {
			if judgeLowS(r, lw) == "not-constructed" {
				r.Inconclusive("replayed low-S witness is not a valid ECDSA signature according to the reference verification")
			}
			r.Finish(0)
			return
		}
		var ac c17AddrCase
		if err := json.Unmarshal(rf.Witness, &ac); err == nil && ac.Order != "" && pkLen[ac.Scheme] != 0 && len(mustHex(ac.Auth)) > pkLen[ac.Scheme] {
			// the signing key is not part of the witness: the freshly parsed objects are replayed
			judgeAddressOrders(r, ac.Scheme, nil, mustHex(ac.Auth), mustHex(ac.Msg), nil)
			r.Finish(0)
			return
		}
		var c c17Case
		if err := json.Unmarshal(rf.Witness, &c); err == nil && c.Scheme != "" && c.Mutant != "" {
			judgeAuthMutant(r, c, "replayed")
			r.Finish(0)
			return
		}
	}
	per := map[string]int{"ed25519": r.N(150, 3000), "secp256r1": r.N(150, 3000), "bls": r.N(40, 600)}
	shards := r.N(4, 12)
	dir, err := os.MkdirTemp("", "c17-")
	if err != nil {
		t.Fatalf("tmp: %v", err)
	}
	defer os.RemoveAll(dir)
	var wg sync.WaitGroup
	var mu sync.Mutex
	sem := make(chan struct{}, 6)
	for _, scheme := range []string{"ed25519", "secp256r1", "bls"} {
		for sh := 0; sh < shards; sh++ {
			wg.Add(1)
			go func(scheme string, sh int) {
				defer wg.Done()
				sem <- struct{}{}
				defer func() { <-sem }()
				out := filepath.Join(dir, fmt.Sprintf("%s-%d.json", scheme, sh))
				res := kit.RunChild("TestC17Child", []string{fmt.Sprintf("VERIF_CHILD=c17:%s:%d", scheme, sh), "C17_OUT=" + out, fmt.Sprintf("C17_N=%d", per[scheme]/shards+1), fmt.Sprintf("C17_SEED=%d", r.Seed())}, 40*time.Minute)
				mu.Lock()
				defer mu.Unlock()
				rep, rerr := os.ReadFile(out)
				if res.TimedOut {
					r.Inconclusive("child %s/%d hit the wall-clock watchdog", scheme, sh)
					return
				}
				if res.ExitCode != 0 || rerr != nil {
					last, _ := os.ReadFile(out + ".last")
					var c c17Case
					_ = json.Unmarshal(last, &c)
					tail := res.Output
					if len(tail) > 3000 {
						tail = tail[len(tail)-3000:]
					}
					r.Violation("C17/"+scheme+"/verifier-killed-process", c, "child %s/%d died (exit %d) while handling the logged auth; output tail: %s", scheme, sh, res.ExitCode, tail)
					return
				}
				col := newCollector()
				if err := json.Unmarshal(rep, col); err != nil {
					r.Inconclusive("child %s/%d wrote an unreadable report: %v", scheme, sh, err)
					return
				}
				r.EvalN(col.Evals)
				for k, v := range col.Counters {
					r.Count(k, v)
				}
				for k := range col.Shapes {
					r.Distinct(k)
				}
				for _, v := range col.Samples {
					r.Sample(v["case"])
				}
				for k, v := range col.PerKey {
					r.Count("violation_occurrences/"+k, v)
				}
				for _, v := range col.Violations {
					r.Violation(v.Key, v.Witness, "%s", v.Detail)
				}
			}(scheme, sh)
		}
	}
	// low-S boundary part (secp256r1), in this process while the shards run
	nLowS := r.N(3000, 150000)
	runC17LowS(r, r.Rand("low-s-boundary"), nLowS)
	if bad := r.Counter("lows_construction_not_confirmed_by_oracle"); bad != 0 || r.Counter("lows_cases") != int64(nLowS) {
		r.Inconclusive("low-S boundary part: %d of %d constructed signatures were not confirmed by the reference ECDSA verification", bad, nLowS)
	}
	wg.Wait()
	r.Finish(r.N(300, 1000))
}
