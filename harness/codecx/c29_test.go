package codecx

import (
	"bytes"
	"encoding/hex"
	"encoding/json"
	"fmt"
	"math/rand/v2"
	"reflect"
	"strings"
	"testing"

	"github.com/ava-labs/avalanchego/utils/wrappers"

	"github.com/ava-labs/hypersdk/abi"
	"github.com/ava-labs/hypersdk/abi/dynamic"
	"github.com/ava-labs/hypersdk/codec"
	"github.com/ava-labs/hypersdk/consts"
	"github.com/ava-labs/hypersdk/examples/morpheusvm/actions"
	mvm "github.com/ava-labs/hypersdk/examples/morpheusvm/vm"
	"github.com/ava-labs/hypersdk/zzverif/kit"
)

// ---- C29: ABI-driven dynamic encoding = native codec ----

// Harness-registered types built only from the kinds the ABI layer supports:
// (u)int8..64, string, []byte, Address, nested structs, slices, fixed arrays, embedded structs.

type C29Inner struct {
	A    uint8         `serialize:"true" json:"a"`
	B    int64         `serialize:"true" json:"b"`
	S    string        `serialize:"true" json:"s"`
	Addr codec.Address `serialize:"true" json:"addr"`
}

type C29Emb struct {
	X uint16 `serialize:"true" json:"x"`
	Y int32  `serialize:"true" json:"y"`
}

type C29Scalars struct {
	U8   uint8         `serialize:"true" json:"u8"`
	U16  uint16        `serialize:"true" json:"u16"`
	U32  uint32        `serialize:"true" json:"u32"`
	U64  uint64        `serialize:"true" json:"u64"`
	I8   int8          `serialize:"true" json:"i8"`
	I16  int16         `serialize:"true" json:"i16"`
	I32  int32         `serialize:"true" json:"i32"`
	I64  int64         `serialize:"true" json:"i64"`
	Str  string        `serialize:"true" json:"str"`
	Raw  []byte        `serialize:"true" json:"raw"`
	Addr codec.Address `serialize:"true" json:"address"`
	Skip uint64        `json:"-"` // not serialized: absent from the ABI, the bytes and the JSON
}

func (*C29Scalars) GetTypeID() uint8 { return 10 }

type C29Nested struct {
	In      C29Inner        `serialize:"true" json:"in"`
	Ins     []C29Inner      `serialize:"true" json:"ins"`
	Fixed   [4]uint8        `serialize:"true" json:"fixed"`
	FixedIn [2]C29Inner     `serialize:"true" json:"fixedIn"`
	Nums    []uint64        `serialize:"true" json:"nums"`
	Signed  []int16         `serialize:"true" json:"signed"`
	Strs    []string        `serialize:"true" json:"strs"`
	Grid    [][]uint16      `serialize:"true" json:"grid"`
	Blobs   [][]byte        `serialize:"true" json:"blobs"`
	Addrs   []codec.Address `serialize:"true" json:"addrs"`
	Pairs   [3][2]int8      `serialize:"true" json:"pairs"`
	C29Emb  `serialize:"true"`
}

func (*C29Nested) GetTypeID() uint8 { return 11 }

type C29Small struct {
	V uint64 `serialize:"true" json:"v"`
	M []byte `serialize:"true" json:"m"`
}

func (*C29Small) GetTypeID() uint8 { return 200 }

type C29Out struct {
	Code   int32      `serialize:"true" json:"code"`
	Items  []C29Inner `serialize:"true" json:"items"`
	Digest [32]uint8  `serialize:"true" json:"digest"`
	Note   string     `serialize:"true" json:"note"`
}

func (*C29Out) GetTypeID() uint8 { return 11 }

// nativeBytes is "the type's own encoding" for the harness types: type id + linear codec,
// exactly how morpheusvm's Transfer encodes itself.
func nativeBytes(v codec.Typed) ([]byte, error) {
	p := &wrappers.Packer{Bytes: make([]byte, 0, 256), MaxSize: consts.NetworkSizeLimit}
	p.PackByte(v.GetTypeID())
	if err := codec.LinearCodec.MarshalInto(v, p); err != nil {
		return nil, err
	}
	return p.Bytes, p.Err
}

var c29Strings = []string{"", "a", "héllo wörld", "日本語", "\"quoted\" \\ back/slash", "<html>&amp;</html>", "line\nbreak\ttab\u0000nul", "  ", "😀 emoji", strings.Repeat("x", 300)}

// fill draws a random value with extremes; shape collects a coarse fingerprint.
func fill(v reflect.Value, rng *rand.Rand, shape *strings.Builder, depth int) {
	switch v.Kind() {
	case reflect.Uint8, reflect.Uint16, reflect.Uint32, reflect.Uint64:
		bitsN := v.Type().Bits()
		max := ^uint64(0) >> uint(64-bitsN)
		var x uint64
		switch rng.IntN(5) {
		case 0:
			x = 0
			shape.WriteByte('0')
		case 1:
			x = max
			shape.WriteByte('M')
		case 2:
			x = 1<<53 + 1
			x &= max
			shape.WriteByte('f')
		default:
			x = rng.Uint64() & max
			shape.WriteByte('r')
		}
		v.SetUint(x)
	case reflect.Int8, reflect.Int16, reflect.Int32, reflect.Int64:
		bitsN := v.Type().Bits()
		max := int64(^uint64(0) >> uint(65-bitsN))
		var x int64
		switch rng.IntN(6) {
		case 0:
			x = 0
			shape.WriteByte('0')
		case 1:
			x = max
			shape.WriteByte('M')
		case 2:
			x = -max - 1
			shape.WriteByte('m')
		case 3:
			x = -1
			shape.WriteByte('n')
		default:
			x = int64(rng.Uint64()) >> uint(64-bitsN)
			shape.WriteByte('r')
		}
		v.SetInt(x)
	case reflect.String:
		i := rng.IntN(len(c29Strings) + 1)
		if i == len(c29Strings) {
			v.SetString(fmt.Sprintf("s%d", rng.IntN(1000)))
		} else {
			v.SetString(c29Strings[i])
		}
		fmt.Fprintf(shape, "s%d", i)
	case reflect.Array:
		shape.WriteByte('[')
		for i := 0; i < v.Len(); i++ {
			if v.Type().Elem().Kind() == reflect.Uint8 && v.Len() > 8 { // Address / digests: random bytes
				v.Index(i).SetUint(uint64(rng.UintN(256)))
				continue
			}
			fill(v.Index(i), rng, shape, depth+1)
		}
		shape.WriteByte(']')
	case reflect.Slice:
		var n int
		switch rng.IntN(6) {
		case 0:
			n = -1 // nil
		case 1:
			n = 0 // empty, non-nil
		case 2:
			n = 1
		case 3:
			n = 2 + rng.IntN(3)
		default:
			n = rng.IntN(12)
		}
		if depth > 1 && n > 3 {
			n = 3
		}
		if v.Type().Elem().Kind() == reflect.Uint8 && rng.IntN(8) == 0 {
			n = 200 + rng.IntN(100)
		}
		fmt.Fprintf(shape, "{%d", min(n, 5))
		if n < 0 {
			v.Set(reflect.Zero(v.Type()))
		} else {
			s := reflect.MakeSlice(v.Type(), n, n)
			for i := 0; i < n; i++ {
				if v.Type().Elem().Kind() == reflect.Uint8 {
					s.Index(i).SetUint(uint64(rng.UintN(256)))
					continue
				}
				fill(s.Index(i), rng, shape, depth+1)
			}
			v.Set(s)
		}
		shape.WriteByte('}')
	case reflect.Struct:
		for i := 0; i < v.NumField(); i++ {
			if v.Type().Field(i).Tag.Get("serialize") != "true" {
				continue
			}
			fill(v.Field(i), rng, shape, depth)
		}
	}
}

// normJSON parses JSON keeping numbers exact and identifies null / "" / [] (the codec
// cannot distinguish absent from empty byte strings and lists).
func normJSON(s string) (any, error) {
	d := json.NewDecoder(strings.NewReader(s))
	d.UseNumber()
	var v any
	if err := d.Decode(&v); err != nil {
		return nil, err
	}
	return norm(v), nil
}

func norm(v any) any {
	switch t := v.(type) {
	case nil:
		return "<empty>"
	case string:
		if t == "" {
			return "<empty>"
		}
		return t
	case []any:
		if len(t) == 0 {
			return "<empty>"
		}
		for i := range t {
			t[i] = norm(t[i])
		}
		return t
	case map[string]any:
		for k := range t {
			t[k] = norm(t[k])
		}
		return t
	case json.Number:
		return t.String()
	}
	return v
}

type c29Case struct {
	ABI   string `json:"abi"` // morpheusvm | harness
	Type  string `json:"type"`
	Kind  string `json:"kind"` // action | output
	JSON  string `json:"json"`
	Bytes string `json:"native_bytes"`
}

var c29ABIs = map[string]abi.ABI{}

func c29Setup(t *testing.T) {
	m, err := abi.NewABI(mvm.ActionParser.GetRegisteredTypes(), mvm.OutputParser.GetRegisteredTypes())
	if err != nil {
		t.Fatalf("harness: morpheusvm ABI: %v", err)
	}
	h, err := abi.NewABI([]codec.Typed{&C29Scalars{}, &C29Nested{}, &C29Small{}}, []codec.Typed{&C29Out{}, &C29Small{}})
	if err != nil {
		t.Fatalf("harness: ABI of the harness types: %v", err)
	}
	c29ABIs["morpheusvm"], c29ABIs["harness"] = m, h
}

// judgeC29 compares the ABI-driven codec with the native encoding for one value
// given as (type name, JSON of the value, native bytes).
func judgeC29(r *kit.Run, c c29Case) {
	r.Eval()
	a := c29ABIs[c.ABI]
	native, _ := hex.DecodeString(c.Bytes)
	want, err := normJSON(c.JSON)
	if err != nil {
		r.T.Fatalf("harness: value JSON unparsable: %v", err)
	}
	r.Guard("dynamic", c, func() {
		if c.Kind == "action" {
			dyn, err := dynamic.Marshal(a, c.Type, c.JSON)
			switch {
			case err != nil:
				r.Violation("C29/"+c.Type+"/marshal-error", c, "dynamic.Marshal of the value's JSON failed: %v", err)
			case !bytes.Equal(dyn, native):
				r.Violation("C29/"+c.Type+"/marshal-bytes-differ", c, "dynamic.Marshal gives %x, the type's own encoding is %x", dyn, native)
			}
		}
		var back string
		var err error
		if c.Kind == "action" {
			back, err = dynamic.UnmarshalAction(a, native)
		} else {
			back, err = dynamic.UnmarshalOutput(a, native)
		}
		if err != nil {
			r.Violation("C29/"+c.Type+"/unmarshal-error", c, "dynamic unmarshal of the native bytes failed: %v", err)
			return
		}
		got, err := normJSON(back)
		if err != nil {
			r.Violation("C29/"+c.Type+"/unmarshal-invalid-json", c, "dynamic unmarshal returned unparsable JSON %q: %v", back, err)
			return
		}
		if !reflect.DeepEqual(got, want) {
			r.Violation("C29/"+c.Type+"/unmarshal-json-differs", c, "dynamic unmarshal gives %s, the value's JSON is %s", back, c.JSON)
		}
	})
}

func TestC29(t *testing.T) {
	r := kit.Start(t, "C29", "exploration")
	r.Rule("values drawn by reflection (every integer width at 0 / max / min / -1 / 2^53+1 / random, strings incl. unicode, escapes, NUL and 300 bytes, byte slices and lists nil / empty / 1 / few / 200+, nested and embedded structs, fixed arrays, lists of lists, addresses) of morpheusvm's Transfer / TransferResult and of harness-registered action/output structs; judged: dynamic.Marshal(abi, name, json(v)) == type id | linear-codec bytes of v (actions), dynamic.UnmarshalAction/UnmarshalOutput(native bytes) == json(v) compared as parsed JSON with exact numbers and null == empty; for Transfer also native parser(dynamic bytes) == v. Non-trivial = value with at least one non-zero field; distinct = (type, per-field value class / length class fingerprint).")
	r.Assume(
		"only kinds the ABI layer declares (ints of all widths, string, []byte, Address, structs, slices, fixed arrays); bool, maps, pointers and named non-struct types are outside its declared support",
		"strings are valid UTF-8 (encoding/json itself is lossy otherwise)",
		"dynamic.Marshal has no output path by design: only decoding is judged for outputs",
		"JSON field names are distinct after title-casing (the dynamic layer derives Go field names that way)",
	)
	c29Setup(t)
	if rf := r.Replay(); rf != nil && len(rf.Witness) > 0 {
		var c c29Case
		if err := json.Unmarshal(rf.Witness, &c); err == nil && c.Type != "" {
			judgeC29(r, c)
			r.Finish(0)
			return
		}
	}
	rng := r.Rand("values")
	n := r.N(20000, 400000)
	type proto struct {
		abi, kind string
		mk        func() codec.Typed
	}
	protos := []proto{
		{"morpheusvm", "action", func() codec.Typed { return &actions.Transfer{} }},
		{"morpheusvm", "output", func() codec.Typed { return &actions.TransferResult{} }},
		{"harness", "action", func() codec.Typed { return &C29Scalars{} }},
		{"harness", "action", func() codec.Typed { return &C29Nested{} }},
		{"harness", "action", func() codec.Typed { return &C29Small{} }},
		{"harness", "output", func() codec.Typed { return &C29Out{} }},
		{"harness", "output", func() codec.Typed { return &C29Small{} }},
	}
	for i := 0; i < n; i++ {
		p := protos[rng.IntN(len(protos))]
		v := p.mk()
		var shape strings.Builder
		fill(reflect.ValueOf(v).Elem(), rng, &shape, 0)
		name := reflect.TypeOf(v).Elem().Name()
		if tr, ok := v.(*actions.Transfer); ok && len(tr.Memo) > actions.MaxMemoSize {
			tr.Memo = tr.Memo[:actions.MaxMemoSize]
		}
		var native []byte
		var err error
		switch tv := v.(type) {
		case *actions.Transfer:
			native = tv.Bytes()
		case *actions.TransferResult:
			native = tv.Bytes()
		default:
			native, err = nativeBytes(v)
		}
		if err != nil {
			r.Count("native_encoding_refused", 1) // e.g. string longer than the codec allows: no native encoding to compare with
			continue
		}
		js, err := json.Marshal(v)
		if err != nil {
			t.Fatalf("harness: json of %s: %v", name, err)
		}
		c := c29Case{ABI: p.abi, Type: name, Kind: p.kind, JSON: string(js), Bytes: hex.EncodeToString(native)}
		judgeC29(r, c)
		r.Count("values_"+name+"_"+p.kind, 1)
		if tr, ok := v.(*actions.Transfer); ok {
			// the native parser reads the dynamic encoding back to the same value
			r.Guard("native-parse-of-dynamic-bytes", c, func() {
				dyn, err := dynamic.Marshal(c29ABIs["morpheusvm"], "Transfer", string(js))
				if err != nil {
					return // reported by judgeC29
				}
				back, err := mvm.ActionParser.Unmarshal(dyn)
				if err != nil {
					r.Violation("C29/Transfer/native-parser-rejects-dynamic-bytes", c, "native parser rejects dynamic.Marshal output: %v", err)
					return
				}
				bt, ok := back.(*actions.Transfer)
				if !ok || bt.To != tr.To || bt.Value != tr.Value || !bytes.Equal(bt.Memo, tr.Memo) {
					r.Violation("C29/Transfer/native-parser-differs", c, "native parser reads dynamic bytes as %+v, value was %+v", back, tr)
				}
			})
		}
		if strings.ContainsAny(shape.String(), "Mmfnr123456789") {
			r.Distinct(name, "|", p.kind, "|", shape.String())
		}
		if i < 4 {
			r.Sample(c)
		}
	}
	r.Finish(r.N(500, 2000))
}
