package codecx

import (
	"bytes"
	"encoding/hex"
	"encoding/json"
	"fmt"
	"math/rand/v2"
	"reflect"
	"sort"
	"strings"
	"testing"

	"github.com/ava-labs/avalanchego/utils/wrappers"

	"github.com/ava-labs/hypersdk/abi"
	"github.com/ava-labs/hypersdk/abi/dynamic"
	"github.com/ava-labs/hypersdk/codec"
	"github.com/ava-labs/hypersdk/consts"
	"github.com/ava-labs/hypersdk/examples/morpheusvm/actions"
	mvm "github.com/ava-labs/hypersdk/examples/morpheusvm/vm"
	"github.com/ava-labs/hypersdk/zzverif/codecx/c29a"
	"github.com/ava-labs/hypersdk/zzverif/codecx/c29b"
	"github.com/ava-labs/hypersdk/zzverif/codecx/c29c"
	"github.com/ava-labs/hypersdk/zzverif/codecx/c29d"
	"github.com/ava-labs/hypersdk/zzverif/kit"
)

// ---- C29: ABI-driven dynamic encoding = native codec ----

// Harness-registered types built only from the kinds the ABI layer supports:
// (u)int8..64, string, []byte, Address, nested structs, slices, fixed arrays, embedded structs.

type C29Inner struct {
	A    uint8         `serialize:"true" json:"a"`
	B    int64         `serialize:"true" json:"b"`
	S    string        `serialize:"true" json:"s"`
	Addr codec.Address `serialize:"true" json:"addr"`
}

type C29Emb struct {
	X uint16 `serialize:"true" json:"x"`
	Y int32  `serialize:"true" json:"y"`
}

type C29Scalars struct {
	U8   uint8         `serialize:"true" json:"u8"`
	U16  uint16        `serialize:"true" json:"u16"`
	U32  uint32        `serialize:"true" json:"u32"`
	U64  uint64        `serialize:"true" json:"u64"`
	I8   int8          `serialize:"true" json:"i8"`
	I16  int16         `serialize:"true" json:"i16"`
	I32  int32         `serialize:"true" json:"i32"`
	I64  int64         `serialize:"true" json:"i64"`
	Str  string        `serialize:"true" json:"str"`
	Raw  []byte        `serialize:"true" json:"raw"`
	Addr codec.Address `serialize:"true" json:"address"`
	Skip uint64        `json:"-"` // not serialized: absent from the ABI, the bytes and the JSON
}

func (*C29Scalars) GetTypeID() uint8 { return 10 }

type C29Nested struct {
	In      C29Inner        `serialize:"true" json:"in"`
	Ins     []C29Inner      `serialize:"true" json:"ins"`
	Fixed   [4]uint8        `serialize:"true" json:"fixed"`
	FixedIn [2]C29Inner     `serialize:"true" json:"fixedIn"`
	Nums    []uint64        `serialize:"true" json:"nums"`
	Signed  []int16         `serialize:"true" json:"signed"`
	Strs    []string        `serialize:"true" json:"strs"`
	Grid    [][]uint16      `serialize:"true" json:"grid"`
	Blobs   [][]byte        `serialize:"true" json:"blobs"`
	Addrs   []codec.Address `serialize:"true" json:"addrs"`
	Pairs   [3][2]int8      `serialize:"true" json:"pairs"`
	C29Emb  `serialize:"true"`
}

func (*C29Nested) GetTypeID() uint8 { return 11 }

type C29Small struct {
	V uint64 `serialize:"true" json:"v"`
	M []byte `serialize:"true" json:"m"`
}

func (*C29Small) GetTypeID() uint8 { return 200 }

type C29Out struct {
	Code   int32      `serialize:"true" json:"code"`
	Items  []C29Inner `serialize:"true" json:"items"`
	Digest [32]uint8  `serialize:"true" json:"digest"`
	Note   string     `serialize:"true" json:"note"`
}

func (*C29Out) GetTypeID() uint8 { return 11 }

// C29Ping / C29Ack have no serialized field: the native encoding is the type id alone.
type C29Ping struct {
	Local uint64 `json:"-"` // not serialized
}

func (*C29Ping) GetTypeID() uint8 { return 12 }

type C29Ack struct{}

func (*C29Ack) GetTypeID() uint8 { return 12 }

// C29One has a single (one byte) field.
type C29One struct {
	V int8 `serialize:"true" json:"v"`
}

func (*C29One) GetTypeID() uint8 { return 13 }

// C29Lists has only strings and lists.
type C29Lists struct {
	Note  string     `serialize:"true" json:"note"`
	Raw   []byte     `serialize:"true" json:"raw"`
	Names []string   `serialize:"true" json:"names"`
	Ins   []C29Inner `serialize:"true" json:"ins"`
	Grid  [][]uint16 `serialize:"true" json:"grid"`
}

func (*C29Lists) GetTypeID() uint8 { return 14 }

// ---- embedded structs that carry struct types of their own (ABIs c29e1, c29e2, c29e3, c29e) ----
//
// A struct type reached ONLY through an embedded (flattened) struct must still be described
// in ABI.Types, otherwise the flattened field names a type the ABI does not contain.

// C29PtA, C29PtB, C29PtC are referenced only from inside the embedded C29EmbHead.
type C29PtA struct {
	X uint32 `serialize:"true" json:"x"`
	Y int64  `serialize:"true" json:"y"`
}

type C29PtB struct {
	Tag string   `serialize:"true" json:"tag"`
	W   []uint16 `serialize:"true" json:"w"`
}

type C29PtC struct {
	K uint8         `serialize:"true" json:"k"`
	A codec.Address `serialize:"true" json:"a"`
}

type C29EmbHead struct {
	Label  string    `serialize:"true" json:"label"`
	Origin C29PtA    `serialize:"true" json:"origin"`
	Path   []C29PtB  `serialize:"true" json:"path"`
	Ends   [2]C29PtC `serialize:"true" json:"ends"`
}

// C29EmbAct: one level of embedding; the embedded struct has a struct field, a []struct
// field and a [2]struct field whose element types appear nowhere else.
type C29EmbAct struct {
	C29EmbHead `serialize:"true"`
	Amount     uint64 `serialize:"true" json:"amount"`
}

func (*C29EmbAct) GetTypeID() uint8 { return 20 }

// C29OutPt is referenced only from inside the embedded C29OutHead.
type C29OutPt struct {
	Code int16  `serialize:"true" json:"code"`
	Msg  string `serialize:"true" json:"msg"`
}

type C29OutHead struct {
	First C29OutPt   `serialize:"true" json:"first"`
	Rest  []C29OutPt `serialize:"true" json:"rest"`
}

// C29EmbOut: the same for an output type.
type C29EmbOut struct {
	Units      uint64 `serialize:"true" json:"units"`
	C29OutHead `serialize:"true"`
}

func (*C29EmbOut) GetTypeID() uint8 { return 20 }

// C29L2Leaf is referenced only from the second-level embedded struct C29L2Inner,
// C29L1Priv only from the first-level embedded struct C29L1Mid.
type C29L2Leaf struct {
	K uint8  `serialize:"true" json:"k"`
	V []byte `serialize:"true" json:"v"`
}

type C29L2Inner struct {
	Leaf   C29L2Leaf   `serialize:"true" json:"leaf"`
	Leaves []C29L2Leaf `serialize:"true" json:"leaves"`
	N      int16       `serialize:"true" json:"n"`
}

type C29L1Priv struct {
	Q int32  `serialize:"true" json:"q"`
	R string `serialize:"true" json:"r"`
}

type C29L1Mid struct {
	C29L2Inner `serialize:"true"`
	Mid        C29L1Priv   `serialize:"true" json:"mid"`
	Mids       []C29L1Priv `serialize:"true" json:"mids"`
}

// C29EmbTwo: two levels of embedding, each level with a struct type of its own.
type C29EmbTwo struct {
	Pre      uint16 `serialize:"true" json:"pre"`
	C29L1Mid `serialize:"true"`
	Post     string `serialize:"true" json:"post"`
}

func (*C29EmbTwo) GetTypeID() uint8 { return 21 }

type C29CtlHead struct {
	In  C29Inner   `serialize:"true" json:"in"`
	Ins []C29Inner `serialize:"true" json:"ins"`
}

// C29EmbCtl (control): the struct type inside the embedded struct is ALSO referenced by a
// direct field of the same registered type.
type C29EmbCtl struct {
	C29CtlHead `serialize:"true"`
	Direct     C29Inner `serialize:"true" json:"direct"`
	Z          int8     `serialize:"true" json:"z"`
}

func (*C29EmbCtl) GetTypeID() uint8 { return 22 }

// nativeBytes is "the type's own encoding" for the harness types: type id + linear codec,
// exactly how morpheusvm's Transfer encodes itself.
func nativeBytes(v codec.Typed) ([]byte, error) {
	p := &wrappers.Packer{Bytes: make([]byte, 0, 256), MaxSize: consts.NetworkSizeLimit}
	p.PackByte(v.GetTypeID())
	if err := codec.LinearCodec.MarshalInto(v, p); err != nil {
		return nil, err
	}
	return p.Bytes, p.Err
}

var c29Strings = []string{"", "a", "héllo wörld", "日本語", "\"quoted\" \\ back/slash", "<html>&amp;</html>", "line\nbreak\ttab\u0000nul", "  ", "😀 emoji", strings.Repeat("x", 300)}

// fill draws a random value with extremes; shape collects a coarse fingerprint.
// With empty set every string is "" and every list nil or empty (fixed arrays and
// integers are drawn as usual).
func fill(v reflect.Value, rng *rand.Rand, shape *strings.Builder, depth int, empty bool) {
	switch v.Kind() {
	case reflect.Uint8, reflect.Uint16, reflect.Uint32, reflect.Uint64:
		bitsN := v.Type().Bits()
		max := ^uint64(0) >> uint(64-bitsN)
		var x uint64
		switch rng.IntN(5) {
		case 0:
			x = 0
			shape.WriteByte('0')
		case 1:
			x = max
			shape.WriteByte('M')
		case 2:
			x = 1<<53 + 1
			x &= max
			shape.WriteByte('f')
		default:
			x = rng.Uint64() & max
			shape.WriteByte('r')
		}
		v.SetUint(x)
	case reflect.Int8, reflect.Int16, reflect.Int32, reflect.Int64:
		bitsN := v.Type().Bits()
		max := int64(^uint64(0) >> uint(65-bitsN))
		var x int64
		switch rng.IntN(6) {
		case 0:
			x = 0
			shape.WriteByte('0')
		case 1:
			x = max
			shape.WriteByte('M')
		case 2:
			x = -max - 1
			shape.WriteByte('m')
		case 3:
			x = -1
			shape.WriteByte('n')
		default:
			x = int64(rng.Uint64()) >> uint(64-bitsN)
			shape.WriteByte('r')
		}
		v.SetInt(x)
	case reflect.String:
		if empty {
			v.SetString("")
			shape.WriteString("s0")
			return
		}
		i := rng.IntN(len(c29Strings) + 1)
		if i == len(c29Strings) {
			v.SetString(fmt.Sprintf("s%d", rng.IntN(1000)))
		} else {
			v.SetString(c29Strings[i])
		}
		fmt.Fprintf(shape, "s%d", i)
	case reflect.Array:
		shape.WriteByte('[')
		for i := 0; i < v.Len(); i++ {
			if v.Type().Elem().Kind() == reflect.Uint8 && v.Len() > 8 { // Address / digests: random bytes
				v.Index(i).SetUint(uint64(rng.UintN(256)))
				continue
			}
			fill(v.Index(i), rng, shape, depth+1, empty)
		}
		shape.WriteByte(']')
	case reflect.Slice:
		if empty {
			if rng.IntN(2) == 0 {
				v.Set(reflect.Zero(v.Type()))
				shape.WriteString("{N}")
			} else {
				v.Set(reflect.MakeSlice(v.Type(), 0, 0))
				shape.WriteString("{E}")
			}
			return
		}
		var n int
		switch rng.IntN(6) {
		case 0:
			n = -1 // nil
		case 1:
			n = 0 // empty, non-nil
		case 2:
			n = 1
		case 3:
			n = 2 + rng.IntN(3)
		default:
			n = rng.IntN(12)
		}
		if depth > 1 && n > 3 {
			n = 3
		}
		if v.Type().Elem().Kind() == reflect.Uint8 && rng.IntN(8) == 0 {
			n = 200 + rng.IntN(100)
		}
		fmt.Fprintf(shape, "{%d", min(n, 5))
		if n < 0 {
			v.Set(reflect.Zero(v.Type()))
		} else {
			s := reflect.MakeSlice(v.Type(), n, n)
			for i := 0; i < n; i++ {
				if v.Type().Elem().Kind() == reflect.Uint8 {
					s.Index(i).SetUint(uint64(rng.UintN(256)))
					continue
				}
				fill(s.Index(i), rng, shape, depth+1, empty)
			}
			v.Set(s)
		}
		shape.WriteByte('}')
	case reflect.Struct:
		for i := 0; i < v.NumField(); i++ {
			if v.Type().Field(i).Tag.Get("serialize") != "true" {
				continue
			}
			fill(v.Field(i), rng, shape, depth, empty)
		}
	}
}

// normJSON parses JSON keeping numbers exact and identifies null / "" / [] (the codec
// cannot distinguish absent from empty byte strings and lists).
func normJSON(s string) (any, error) {
	d := json.NewDecoder(strings.NewReader(s))
	d.UseNumber()
	var v any
	if err := d.Decode(&v); err != nil {
		return nil, err
	}
	return norm(v), nil
}

func norm(v any) any {
	switch t := v.(type) {
	case nil:
		return "<empty>"
	case string:
		if t == "" {
			return "<empty>"
		}
		return t
	case []any:
		if len(t) == 0 {
			return "<empty>"
		}
		for i := range t {
			t[i] = norm(t[i])
		}
		return t
	case map[string]any:
		for k := range t {
			t[k] = norm(t[k])
		}
		return t
	case json.Number:
		return t.String()
	}
	return v
}

type c29Case struct {
	ABI   string `json:"abi"` // morpheusvm | harness | c29a | c29b | c29c | c29d
	Type  string `json:"type"`
	Kind  string `json:"kind"` // action | output
	JSON  string `json:"json"`
	Bytes string `json:"native_bytes"`
	// Class is the key class: "" (plain), "zero-field", "same-name-other-layout" or both joined by '+'.
	Class string `json:"class,omitempty"`
	// Before are the "abi|type|kind" uses of the dynamic codec that preceded this case in
	// the process: every (abi, type, kind) in the order of its first use, then "...", then
	// the last few uses. A replay performs them (with zero values) before judging the case.
	Before []string `json:"used_before,omitempty"`
	// Conc > 0: the case was judged while Conc goroutines were using the dynamic codec at the same time.
	Conc int `json:"concurrent_goroutines,omitempty"`
}

// c29Proto is one registered (abi, type, kind).
type c29Proto struct {
	abi, kind, name string
	typ             reflect.Type      // the Go struct type
	layouts         map[string]string // struct type name (top-level and nested) -> deep field layout
	nFields         int               // serialized fields of the top-level struct (embedded ones flattened)
	listsOnly       bool              // every serialized field is a string or a list
	embStructs      int               // named struct types reached through an embedded (flattened) struct of the top-level type
}

func (p *c29Proto) key() string { return p.abi + "|" + p.name + "|" + p.kind }

func (p *c29Proto) mk() codec.Typed { return reflect.New(p.typ).Interface().(codec.Typed) }

var (
	c29ABIs     = map[string]abi.ABI{}
	c29ABINames []string
	c29Protos   = map[string][]*c29Proto{} // by abi
	c29ByKey    = map[string]*c29Proto{}
	c29AddrType = reflect.TypeOf(codec.Address{})
)

// c29Layout fingerprints the serialized layout of a Go type by reflection (independent of
// the abi package); named struct types reached are recorded in names.
func c29Layout(t reflect.Type, names map[string]string, embedded bool) string {
	switch t.Kind() {
	case reflect.Struct:
		var b strings.Builder
		b.WriteByte('{')
		for i := 0; i < t.NumField(); i++ {
			f := t.Field(i)
			if f.Tag.Get("serialize") != "true" {
				continue
			}
			if f.Anonymous {
				b.WriteString(strings.Trim(c29Layout(f.Type, names, true), "{}"))
				continue
			}
			fmt.Fprintf(&b, "%s:%s;", strings.Split(f.Tag.Get("json"), ",")[0], c29Layout(f.Type, names, false))
		}
		b.WriteByte('}')
		if !embedded {
			names[t.Name()] = b.String()
		}
		return b.String()
	case reflect.Array:
		if t == c29AddrType {
			return "Address"
		}
		return fmt.Sprintf("[%d]%s", t.Len(), c29Layout(t.Elem(), names, false))
	case reflect.Slice:
		return "[]" + c29Layout(t.Elem(), names, false)
	default:
		return t.Kind().String()
	}
}

func c29Register(t *testing.T, name string, actionTypes, outputTypes []codec.Typed) {
	a, err := abi.NewABI(actionTypes, outputTypes)
	if err != nil {
		t.Fatalf("harness: ABI %s: %v", name, err)
	}
	c29ABIs[name] = a
	c29ABINames = append(c29ABINames, name)
	add := func(kind string, vs []codec.Typed) {
		for _, v := range vs {
			typ := reflect.TypeOf(v).Elem()
			p := &c29Proto{abi: name, kind: kind, name: typ.Name(), typ: typ, layouts: map[string]string{}}
			top := c29Layout(typ, p.layouts, false)
			p.nFields = strings.Count(topLevel(top), ";")
			p.listsOnly = p.nFields > 0
			for _, f := range strings.Split(topLevel(top), ";") {
				if f == "" {
					continue
				}
				ft := f[strings.Index(f, ":")+1:]
				if ft != "string" && !strings.HasPrefix(ft, "[]") {
					p.listsOnly = false
				}
			}
			for i := 0; i < typ.NumField(); i++ {
				if f := typ.Field(i); f.Anonymous && f.Tag.Get("serialize") == "true" {
					sub := map[string]string{}
					c29Layout(f.Type, sub, true)
					p.embStructs += len(sub)
				}
			}
			c29Protos[name] = append(c29Protos[name], p)
			c29ByKey[p.key()] = p
		}
	}
	add("action", actionTypes)
	add("output", outputTypes)
}

// topLevel removes nested {...} groups from a layout, leaving "name:type;" per top-level field.
func topLevel(layout string) string {
	var b strings.Builder
	depth := 0
	for _, ch := range layout {
		switch ch {
		case '{':
			depth++
			if depth > 1 {
				b.WriteString("struct")
			}
		case '}':
			depth--
		default:
			if depth == 1 {
				b.WriteRune(ch)
			}
		}
	}
	return b.String()
}

func c29Setup(t *testing.T) {
	c29Register(t, "morpheusvm", mvm.ActionParser.GetRegisteredTypes(), mvm.OutputParser.GetRegisteredTypes())
	c29Register(t, "harness",
		[]codec.Typed{&C29Scalars{}, &C29Nested{}, &C29Small{}, &C29Ping{}, &C29One{}, &C29Lists{}},
		[]codec.Typed{&C29Out{}, &C29Small{}, &C29Ack{}, &C29One{}})
	c29Register(t, "c29a", c29a.Actions(), c29a.Outputs())
	c29Register(t, "c29b", c29b.Actions(), c29b.Outputs())
	c29Register(t, "c29c", c29c.Actions(), c29c.Outputs())
	c29Register(t, "c29d", c29d.Actions(), c29d.Outputs())
	// embedded structs with struct types of their own: each in its OWN abi.NewABI call (no
	// other registered type can supply the nested type descriptions) and all in one call
	c29Register(t, "c29e1", []codec.Typed{&C29EmbAct{}}, []codec.Typed{&C29EmbOut{}})
	c29Register(t, "c29e2", []codec.Typed{&C29EmbTwo{}}, []codec.Typed{&C29EmbTwo{}})
	c29Register(t, "c29e3", []codec.Typed{&C29EmbCtl{}}, []codec.Typed{&C29EmbCtl{}})
	c29Register(t, "c29e",
		[]codec.Typed{&C29EmbAct{}, &C29EmbTwo{}, &C29EmbCtl{}, &C29Nested{}},
		[]codec.Typed{&C29EmbOut{}, &C29EmbTwo{}, &C29EmbCtl{}, &C29Out{}})
}

// c29Tracker remembers which struct type names the process has already pushed through
// the dynamic codec, under which ABI and with which layout.
type c29Tracker struct {
	prev       *c29Proto
	seen       map[string]map[string]struct{} // type name -> layouts used so far
	last       map[string]string              // type name -> layout at its latest use
	first      map[string]bool
	firstOrder []string
	recent     []string
}

type c29Ctx struct {
	switched         bool // other ABI than the preceding case
	otherLayoutEver  bool // a type name of this value was used before with another layout
	changedSinceLast bool // ... and its latest use had another layout
	prevKey          string
	before           []string
}

func newC29Tracker() *c29Tracker {
	return &c29Tracker{seen: map[string]map[string]struct{}{}, last: map[string]string{}, first: map[string]bool{}}
}

func (tk *c29Tracker) use(p *c29Proto) c29Ctx {
	var ctx c29Ctx
	ctx.before = append(append(append([]string{}, tk.firstOrder...), "..."), tk.recent...)
	if tk.prev != nil {
		ctx.switched = tk.prev.abi != p.abi
		ctx.prevKey = tk.prev.key()
	}
	for name, layout := range p.layouts {
		if l, ok := tk.last[name]; ok && l != layout {
			ctx.changedSinceLast = true
		}
		for l := range tk.seen[name] {
			if l != layout {
				ctx.otherLayoutEver = true
			}
		}
		if tk.seen[name] == nil {
			tk.seen[name] = map[string]struct{}{}
		}
		tk.seen[name][layout] = struct{}{}
		tk.last[name] = layout
	}
	if !tk.first[p.key()] {
		tk.first[p.key()] = true
		tk.firstOrder = append(tk.firstOrder, p.key())
	}
	tk.recent = append(tk.recent, p.key())
	if len(tk.recent) > 4 {
		tk.recent = tk.recent[1:]
	}
	tk.prev = p
	return ctx
}

func c29Native(v codec.Typed) ([]byte, error) {
	switch tv := v.(type) {
	case *actions.Transfer:
		return tv.Bytes(), nil
	case *actions.TransferResult:
		return tv.Bytes(), nil
	}
	return nativeBytes(v)
}

// c29NativeGuarded is c29Native for a generated (valid) value; a panic of the type's own
// encoder is reported instead of killing the monitor (there is then nothing to compare with).
func c29NativeGuarded(r *kit.Run, p *c29Proto, v codec.Typed, conc int) (native []byte, err error, ok bool) {
	key := "C29/" + p.name + "/native-encoding-panics"
	if conc > 0 {
		key = "C29/concurrent/" + p.name + "/native-encoding-panics"
	}
	func() {
		defer func() {
			if x := recover(); x != nil {
				js, _ := json.Marshal(v)
				r.Violation(key, c29Case{ABI: p.abi, Type: p.name, Kind: p.kind, JSON: string(js), Conc: conc}, "the type's own encoding of the %s value %s panics: %v (dynamic.Marshal has nothing to agree with)", p.key(), js, x)
			}
		}()
		native, err = c29Native(v)
		ok = true
	}()
	return native, err, ok
}

// c29Warm pushes a zero value of p through the dynamic codec without judging it
// (replays: re-create what the process had used before the witness).
func c29Warm(r *kit.Run, p *c29Proto) {
	v := p.mk()
	native, err := c29Native(v)
	js, jerr := json.Marshal(v)
	if err != nil || jerr != nil {
		return
	}
	r.Guard("replay-warm-up", p.key(), func() {
		if p.kind == "action" {
			_, _ = dynamic.Marshal(c29ABIs[p.abi], p.name, string(js))
			_, _ = dynamic.UnmarshalAction(c29ABIs[p.abi], native)
		} else {
			_, _ = dynamic.UnmarshalOutput(c29ABIs[p.abi], native)
		}
	})
}

// judgeC29 compares the ABI-driven codec with the native encoding for one value
// given as (abi, type name, JSON of the value, native bytes).
func judgeC29(r *kit.Run, c c29Case) {
	r.Eval()
	a := c29ABIs[c.ABI]
	native, _ := hex.DecodeString(c.Bytes)
	want, err := normJSON(c.JSON)
	if err != nil {
		if c.Conc > 0 { // not on the test goroutine
			r.Inconclusive("harness: value JSON unparsable: %v", err)
			return
		}
		r.T.Fatalf("harness: value JSON unparsable: %v", err)
	}
	pre := "C29/" + c.Type + "/"
	where := "dynamic"
	switch {
	case c.Conc > 0:
		pre = "C29/concurrent/" + c.Type + "/"
		where = "concurrent/dynamic"
	case c.Class != "":
		pre = "C29/" + c.Class + "/" + c.Type + "/"
	case strings.HasPrefix(c.ABI, "c29"):
		pre = "C29/" + c.ABI + "." + c.Type + "/"
	}
	r.Guard(where, c, func() {
		if c.Kind == "action" {
			dyn, err := dynamic.Marshal(a, c.Type, c.JSON)
			switch {
			case err != nil:
				r.Violation(pre+"marshal-error", c, "dynamic.Marshal(%s ABI, %s) of the value's JSON failed: %v", c.ABI, c.Type, err)
			case !bytes.Equal(dyn, native):
				r.Violation(pre+"marshal-bytes-differ", c, "dynamic.Marshal(%s ABI, %s) gives %x, the type's own encoding is %x", c.ABI, c.Type, dyn, native)
			}
		}
		var back string
		var err error
		if c.Kind == "action" {
			back, err = dynamic.UnmarshalAction(a, native)
		} else {
			back, err = dynamic.UnmarshalOutput(a, native)
		}
		if err != nil {
			r.Violation(pre+"unmarshal-error", c, "dynamic unmarshal (%s ABI) of the native bytes %x failed: %v", c.ABI, native, err)
			return
		}
		if back == "" {
			r.Violation(pre+"unmarshal-returns-nothing", c, "dynamic unmarshal (%s ABI) of the native bytes %x returned no JSON and no error, the value's JSON is %s", c.ABI, native, c.JSON)
			return
		}
		got, err := normJSON(back)
		if err != nil {
			r.Violation(pre+"unmarshal-invalid-json", c, "dynamic unmarshal returned unparsable JSON %q: %v", back, err)
			return
		}
		if !reflect.DeepEqual(got, want) {
			r.Violation(pre+"unmarshal-json-differs", c, "dynamic unmarshal (%s ABI) gives %s, the value's JSON is %s", c.ABI, back, c.JSON)
		}
	})
}

// c29NativeParse: morpheusvm's own parser reads the dynamic encoding of a Transfer back
// to the same value (same native bytes).
func c29NativeParse(r *kit.Run, c c29Case) {
	where, pre := "native-parse-of-dynamic-bytes", "C29/Transfer/"
	if c.Conc > 0 {
		where, pre = "concurrent/native-parse-of-dynamic-bytes", "C29/concurrent/Transfer/"
	}
	r.Guard(where, c, func() {
		dyn, err := dynamic.Marshal(c29ABIs["morpheusvm"], "Transfer", c.JSON)
		if err != nil {
			return // reported by judgeC29
		}
		back, err := mvm.ActionParser.Unmarshal(dyn)
		if err != nil {
			r.Violation(pre+"native-parser-rejects-dynamic-bytes", c, "native parser rejects dynamic.Marshal output %x: %v", dyn, err)
			return
		}
		bt, ok := back.(*actions.Transfer)
		if !ok || hex.EncodeToString(bt.Bytes()) != c.Bytes {
			r.Violation(pre+"native-parser-differs", c, "native parser reads dynamic bytes %x as %+v, the value is %s", dyn, back, c.JSON)
		}
	})
}

func TestC29(t *testing.T) {
	r := kit.Start(t, "C29", "exploration")
	r.Rule("one process, PRNG-ordered interleaving of ten ABIs: morpheusvm (Transfer / TransferResult), a harness ABI (structs covering every declared kind, plus types with ZERO serialized fields, a single field, only strings/lists), four ABIs built with abi.NewABI from four Go type sets (packages c29a..c29d) that share the type names Transfer, TransferResult (also with morpheusvm), Batch, Ping, Lists, One, Ack, Receipt and the nested name Leg with different field lists / orders / widths / kinds / type ids, and four ABIs for embedded (flattened) structs that carry struct types of their own: c29e1 = {action C29EmbAct, output C29EmbOut: the embedded struct has a struct field, a []struct field and a [2]struct field whose element types are referenced nowhere else}, c29e2 = {C29EmbTwo: an embedded struct that embeds another struct, each level with a struct / []struct field of a type referenced nowhere else}, c29e3 = {C29EmbCtl, control: the struct type inside the embedded struct is also a direct field} - each built by its OWN abi.NewABI call so that no other registered type can supply the nested type descriptions - and c29e = all of them plus C29Nested / C29Out in one call; each step keeps the ABI of the preceding step (1/4) or draws one uniformly, then a registered type of it. Values drawn by reflection (every integer width at 0 / max / min / -1 / 2^53+1 / random, strings incl. unicode, escapes, NUL and 300 bytes, byte slices and lists nil / empty / 1 / few / 200+, nested and embedded structs, fixed arrays, lists of lists, addresses; 1 in 6 values with every string and list empty). Judged for the value actually used: dynamic.Marshal(abi, name, json(v)) == type id | linear-codec bytes of v (actions), dynamic.UnmarshalAction/UnmarshalOutput(abi, native bytes) == json(v) compared as parsed JSON with exact numbers and null == empty (and never an empty answer); for morpheusvm's Transfer also native parser(dynamic bytes) == v. Concurrent part: 12 goroutines (own PRNG streams) draw (ABI, registered type, value) the same way and encode / decode through the ABIs at the same time; every result is judged against the native bytes / the value's JSON exactly as in the sequential part (keys C29/concurrent/<type>/..., panics included). Non-trivial = value with at least one non-zero field, or a step that switches the ABI; distinct = (abi, type, kind, per-field value class / length class fingerprint) and, for ABI switches, (preceding abi/type/kind -> this abi/type/kind).")
	r.Assume(
		"encoding / decoding through an ABI is a function of (ABI, type, value): the result required of one call does not depend on other calls running at the same time",
		"only kinds the ABI layer declares (ints of all widths, string, []byte, Address, structs, slices, fixed arrays); bool, maps, pointers and named non-struct types are outside its declared support",
		"strings are valid UTF-8 (encoding/json itself is lossy otherwise)",
		"dynamic.Marshal has no output path by design: only decoding is judged for outputs",
		"JSON field names are distinct after title-casing (the dynamic layer derives Go field names that way)",
		"within ONE ABI type names are unique (an ABI identifies types by name); the same name in different ABIs is a different type",
		"types without serialized fields are only used as registered top-level types, not as list elements (the linear codec refuses zero-length list elements)",
	)
	c29Setup(t)
	if rf := r.Replay(); rf != nil && len(rf.Witness) > 0 {
		var c c29Case
		if err := json.Unmarshal(rf.Witness, &c); err == nil && c.Type != "" {
			if p := c29ByKey[c.ABI+"|"+c.Type+"|"+c.Kind]; c.Bytes == "" && p != nil {
				// witness of a panicking native encoder: rebuild the value and encode it again
				v := p.mk()
				if err := json.Unmarshal([]byte(c.JSON), v); err == nil {
					r.Eval()
					c29NativeGuarded(r, p, v, 0)
				}
				r.Finish(0)
				return
			}
			if c.Conc > 0 {
				// an interleaving cannot be replayed step by step: re-run the concurrent part
				c29Concurrent(r, c.Conc, r.N(1500, 20000))
				r.Finish(0)
				return
			}
			for _, k := range c.Before {
				if p := c29ByKey[k]; p != nil {
					c29Warm(r, p)
				}
			}
			judgeC29(r, c)
			if c.ABI == "morpheusvm" && c.Type == "Transfer" {
				c29NativeParse(r, c)
			}
			r.Finish(0)
			return
		}
	}
	// what the type sets share: name -> number of different layouts over all ABIs
	{
		byName := map[string]map[string]struct{}{}
		for _, ps := range c29Protos {
			for _, p := range ps {
				for n, l := range p.layouts {
					if byName[n] == nil {
						byName[n] = map[string]struct{}{}
					}
					byName[n][l] = struct{}{}
				}
			}
		}
		shared := map[string]int{}
		for n, ls := range byName {
			if len(ls) > 1 {
				shared[n] = len(ls)
			}
		}
		r.Extra("type_names_with_several_layouts", shared)
		abis := append([]string{}, c29ABINames...)
		sort.Strings(abis)
		r.Extra("abis", abis)
	}
	rng := r.Rand("values")
	n := r.N(30000, 600000)
	tk := newC29Tracker()
	curABI := ""
	for i := 0; i < n; i++ {
		if curABI == "" || rng.IntN(4) != 0 {
			curABI = c29ABINames[rng.IntN(len(c29ABINames))]
		}
		ps := c29Protos[curABI]
		p := ps[rng.IntN(len(ps))]
		v := p.mk()
		empty := rng.IntN(6) == 0
		var shape strings.Builder
		fill(reflect.ValueOf(v).Elem(), rng, &shape, 0, empty)
		name := p.name
		if tr, ok := v.(*actions.Transfer); ok && len(tr.Memo) > actions.MaxMemoSize {
			tr.Memo = tr.Memo[:actions.MaxMemoSize]
		}
		native, err, nok := c29NativeGuarded(r, p, v, 0)
		if !nok {
			r.Eval()
			continue
		}
		if err != nil {
			r.Count("native_encoding_refused", 1) // e.g. string longer than the codec allows: no native encoding to compare with
			continue
		}
		js, err := json.Marshal(v)
		if err != nil {
			t.Fatalf("harness: json of %s: %v", name, err)
		}
		ctx := tk.use(p)
		var class []string
		if p.nFields == 0 {
			class = append(class, "zero-field")
			r.Count("zero_field_values", 1)
			if len(native) != 1 {
				t.Fatalf("harness: %s has no serialized field but encodes to %x", p.key(), native)
			}
		}
		if ctx.otherLayoutEver {
			class = append(class, "same-name-other-layout")
			r.Count("same_name_other_layout_uses", 1)
		}
		if ctx.changedSinceLast {
			r.Count("same_name_layout_changed_since_latest_use", 1)
		}
		if ctx.switched {
			r.Count("abi_switches", 1)
		}
		if p.nFields == 1 {
			r.Count("single_field_type_values", 1)
		}
		if p.embStructs > 0 {
			r.Count("values_of_types_whose_embedded_struct_has_struct_types", 1)
		}
		if empty && p.listsOnly {
			r.Count("values_with_only_empty_strings_and_lists", 1)
		}
		c := c29Case{ABI: p.abi, Type: name, Kind: p.kind, JSON: string(js), Bytes: hex.EncodeToString(native), Class: strings.Join(class, "+"), Before: ctx.before}
		judgeC29(r, c)
		if strings.HasPrefix(p.abi, "c29") {
			r.Count("values_"+p.abi+"."+name+"_"+p.kind, 1)
		} else {
			r.Count("values_"+name+"_"+p.kind, 1)
		}
		if p.abi == "morpheusvm" && name == "Transfer" {
			c29NativeParse(r, c)
		}
		if strings.ContainsAny(shape.String(), "Mmfnr123456789") {
			r.Distinct(p.abi, "|", name, "|", p.kind, "|", shape.String())
		}
		if ctx.switched {
			r.Distinct("switch|", ctx.prevKey, "->", p.key())
		}
		if i < 6 {
			r.Sample(c)
		}
	}
	// the same judgement while several goroutines use the dynamic codec at once
	c29Concurrent(r, 12, r.N(1500, 20000))
	r.Finish(r.N(500, 2000))
}
