// Package c29b is type set B of the C29 monitor ("chain B" / "chain A after an upgrade"):
// same type names as c29a, c29c, c29d with other widths, extra fields and other field orders.
package c29b

import "github.com/ava-labs/hypersdk/codec"

// Leg: the fields of c29a.Leg in the opposite order.
type Leg struct {
	Amount uint64 `serialize:"true" json:"amount"`
	Asset  string `serialize:"true" json:"asset"`
}

// Transfer: 32 bit value, memo as in morpheusvm.
type Transfer struct {
	To    codec.Address `serialize:"true" json:"to"`
	Value uint32        `serialize:"true" json:"value"`
	Memo  []byte        `serialize:"true" json:"memo"`
}

func (*Transfer) GetTypeID() uint8 { return 0 }

type Batch struct {
	Transfers []Transfer `serialize:"true" json:"transfers"`
	Head      Leg        `serialize:"true" json:"head"`
}

func (*Batch) GetTypeID() uint8 { return 1 }

// Ping has a single field here.
type Ping struct {
	Nonce uint64 `serialize:"true" json:"nonce"`
}

func (*Ping) GetTypeID() uint8 { return 2 }

type Lists struct {
	Raw   []byte   `serialize:"true" json:"raw"`
	Names []string `serialize:"true" json:"names"`
	Blobs [][]byte `serialize:"true" json:"blobs"`
}

func (*Lists) GetTypeID() uint8 { return 3 }

type One struct {
	V string `serialize:"true" json:"v"`
}

func (*One) GetTypeID() uint8 { return 4 }

// ---- outputs ----

// TransferResult has no serialized field here.
type TransferResult struct{}

func (*TransferResult) GetTypeID() uint8 { return 0 }

type Ack struct {
	Height uint64 `serialize:"true" json:"height"`
}

func (*Ack) GetTypeID() uint8 { return 1 }

type Receipt struct {
	Code int64  `serialize:"true" json:"code"`
	Legs [2]Leg `serialize:"true" json:"legs"`
}

func (*Receipt) GetTypeID() uint8 { return 2 }

func Actions() []codec.Typed {
	return []codec.Typed{&Transfer{}, &Batch{}, &Ping{}, &Lists{}, &One{}}
}

func Outputs() []codec.Typed {
	return []codec.Typed{&TransferResult{}, &Ack{}, &Receipt{}}
}
