package codecx

import (
	"bytes"
	"context"
	"fmt"
	"math/big"
	"math/rand/v2"

	blst "github.com/supranational/blst/bindings/go"

	"github.com/ava-labs/hypersdk/auth"
	"github.com/ava-labs/hypersdk/chain"
	"github.com/ava-labs/hypersdk/codec"
)

// ---- C17, one-field damage: a valid auth encoding whose public-key field ONLY or signature field
// ONLY is damaged, the other field staying a valid encoding ----
//
// Blind mutation of a whole auth never leaves a valid BLS G2 signature (or G1 key) next to a
// broken other field, so a parser that validates the two fields in sequence is exercised on its
// second check only by damaging exactly one field of an honest encoding.  What is demanded of
// every such byte string (and of every other mutant of the catalog): the parse fails, or the
// parsed auth is fully usable - no call on it panics, Bytes() gives back the input, Actor() and
// Sponsor() are type id | sha256(public key bytes of the input) - and it does not verify for the
// message unless it is the honest encoding itself.

type c17Field struct {
	name     string // "public-key" | "signature"
	off, end int
}

func c17Fields(scheme string, n int) []c17Field {
	return []c17Field{{"public-key", 1, 1 + pkLen[scheme]}, {"signature", 1 + pkLen[scheme], n}}
}

// fieldDamageMutants: foreign is another honest auth of the same scheme (other key, other message);
// pkBits: also every single-bit flip of the public-key field (when the catalog of mutantsOf only
// sampled them for this auth).
func fieldDamageMutants(s sink, scheme string, orig, foreign []byte, rng *rand.Rand, pkBits bool) []c17Mutant {
	var out []c17Mutant
	for _, f := range c17Fields(scheme, len(orig)) {
		f := f
		n := f.end - f.off
		add := func(kind, detail string, field []byte) {
			if len(field) != n {
				panic("harness: damaged field has the wrong length")
			}
			b := append([]byte(nil), orig...)
			copy(b[f.off:], field)
			if bytes.Equal(b, orig) {
				return
			}
			// construction check: everything outside the field is the honest encoding
			if !bytes.Equal(b[:f.off], orig[:f.off]) || !bytes.Equal(b[f.end:], orig[f.end:]) {
				panic("harness: field damage touched another field")
			}
			out = append(out, c17Mutant{f.name + ":" + kind + detail, f.name + "-" + kind, b})
		}
		cur := func() []byte { return append([]byte(nil), orig[f.off:f.end]...) }
		fill := func(v byte) []byte { return bytes.Repeat([]byte{v}, n) }

		add("all-zero", "", fill(0))
		add("all-ff", "", fill(0xff))
		add("random", "", randBytes(rng, n))
		if len(foreign) == len(orig) {
			add("of-another-honest-auth", "", foreign[f.off:f.end])
		}
		rev := cur()
		for i, j := 0, n-1; i < j; i, j = i+1, j-1 {
			rev[i], rev[j] = rev[j], rev[i]
		}
		add("byte-reversed", "", rev)
		c := cur()
		add("rotated", "(1)", append(c[1:], c[0]))
		c = cur()
		add("rotated", "(-1)", append([]byte{c[n-1]}, c[:n-1]...))
		// truncated, then padded back to the field length
		for _, keep := range []int{0, 1, n / 2, n - 1, rng.IntN(n)} {
			for _, pad := range []byte{0x00, 0xff} {
				c := fill(pad)
				copy(c, orig[f.off:f.off+keep])
				add("truncated-then-padded", fmt.Sprintf("(keep %d, pad %02x)", keep, pad), c)
				c = fill(pad) // the tail kept instead of the head
				copy(c[n-keep:], orig[f.end-keep:f.end])
				add("truncated-then-padded", fmt.Sprintf("(keep last %d, pad %02x)", keep, pad), c)
			}
		}
		for _, v := range []byte{0x00, 0x01, 0x02, 0x03, 0x04, 0x1f, 0x20, 0x40, 0x60, 0x80, 0xa0, 0xc0, 0xe0, 0xff} {
			c := cur()
			c[0] = v
			add("first-byte", fmt.Sprintf("(%02x)", v), c)
		}
		for _, v := range []byte{0x00, 0x7f, 0x80, 0xff} {
			c := cur()
			c[n-1] = v
			add("last-byte", fmt.Sprintf("(%02x)", v), c)
		}
		for k := 0; k < 6; k++ {
			c := cur()
			i, j := rng.IntN(n*8), rng.IntN(n*8)
			c[i/8] ^= 1 << uint(i%8)
			c[j/8] ^= 1 << uint(j%8)
			add("two-bit-flips", fmt.Sprintf("(%d,%d)", i, j), c)
		}
		if pkBits && f.name == "public-key" {
			for i := 0; i < n*8; i++ {
				c := cur()
				c[i/8] ^= 1 << uint(i%8)
				add("bit-flip", fmt.Sprintf("(%d)", i), c)
			}
		}
		if scheme == "bls" {
			blsFieldDamage(s, rng, f, orig, add)
		}
	}
	return out
}

// blsFieldDamage: encodings of one BLS field that are no valid compressed point of the
// prime-order subgroup.  blst is used to construct and label the inputs only.
func blsFieldDamage(s sink, rng *rand.Rand, f c17Field, orig []byte, add func(kind, detail string, field []byte)) {
	n := f.end - f.off
	g1 := f.name == "public-key"
	cur := func() []byte { return append([]byte(nil), orig[f.off:f.end]...) }
	decodes := func(b []byte) (onCurve, inGroup bool) {
		if g1 {
			q := new(blst.P1Affine).Uncompress(b)
			return q != nil, q != nil && q.InG1()
		}
		q := new(blst.P2Affine).Uncompress(b)
		return q != nil, q != nil && q.InG2()
	}
	// every combination of the three flag bits over the honest x
	for fl := 0; fl < 8; fl++ {
		c := cur()
		c[0] = c[0]&0x1f | byte(fl)<<5
		add("flags", fmt.Sprintf("(%03b)", fl), c)
	}
	// encodings around the point at infinity
	for _, v := range []struct {
		first, last byte
	}{{0xc0, 0}, {0x40, 0}, {0xe0, 0}, {0x80, 0}, {0x00, 0}, {0xc0, 1}, {0xe0, 1}, {0x40, 1}} {
		c := make([]byte, n)
		c[0], c[n-1] = v.first, v.last
		add("infinity-like", fmt.Sprintf("(%02x..%02x)", v.first, v.last), c)
	}
	// field elements that are not reduced: x (G1) / x.c1 (G2) = p-1, p, p+1, 2^381-1, with either sign
	for _, v := range []struct {
		name string
		val  *big.Int
	}{{"p-1", new(big.Int).Sub(bls381P, big.NewInt(1))}, {"p", bls381P}, {"p+1", new(big.Int).Add(bls381P, big.NewInt(1))}, {"2^381-1", new(big.Int).Sub(new(big.Int).Lsh(big.NewInt(1), 381), big.NewInt(1))}} {
		for _, sign := range []byte{0x80, 0xa0} {
			c := cur()
			copy(c[:48], v.val.FillBytes(make([]byte, 48)))
			c[0] |= sign
			add("x-boundary", fmt.Sprintf("(%s,%02x)", v.name, sign), c)
		}
	}
	// x just above the honest x until it is off the curve / on the curve but outside the subgroup
	var haveOff, haveOut bool
	x := new(big.Int).SetBytes(append([]byte{orig[f.off] & 0x1f}, orig[f.off+1:f.end]...))
	for k := 1; k <= 64 && !(haveOff && haveOut); k++ {
		c := new(big.Int).Add(x, big.NewInt(int64(k))).FillBytes(make([]byte, n))
		if c[0]&0xe0 != 0 {
			break
		}
		c[0] |= orig[f.off] & 0xe0
		on, in := decodes(c)
		switch {
		case !on && !haveOff:
			haveOff = true
			s.Count("bls_field_damage_constructed/"+f.name+"/off-curve", 1)
			add("off-curve", fmt.Sprintf("(x+%d)", k), c)
		case on && !in && !haveOut:
			haveOut = true
			s.Count("bls_field_damage_constructed/"+f.name+"/on-curve-outside-subgroup", 1)
			add("on-curve-outside-subgroup", fmt.Sprintf("(x+%d)", k), c)
		}
	}
	// random compressed encodings: off the curve, and on the curve outside the subgroup
	haveOff, haveOut = false, false
	for k := 0; k < 64 && !(haveOff && haveOut); k++ {
		c := randBytes(rng, n)
		c[0] = 0x80 | c[0]&0x3f
		if !g1 {
			c[48] &= 0x1f
		}
		on, in := decodes(c)
		switch {
		case !on && !haveOff:
			haveOff = true
			s.Count("bls_field_damage_constructed/"+f.name+"/random-off-curve", 1)
			add("off-curve", "(random x)", c)
		case on && !in && !haveOut:
			haveOut = true
			s.Count("bls_field_damage_constructed/"+f.name+"/random-on-curve-outside-subgroup", 1)
			add("on-curve-outside-subgroup", "(random x)", c)
		}
	}
}

// ---- oracle: a parsed auth is usable ----

func c17DirectParser(scheme string) (string, func([]byte) (chain.Auth, error)) {
	switch scheme {
	case "ed25519":
		return "auth.UnmarshalED25519", auth.UnmarshalED25519
	case "secp256r1":
		return "auth.UnmarshalSECP256R1", auth.UnmarshalSECP256R1
	case "bls":
		return "auth.UnmarshalBLS", auth.UnmarshalBLS
	}
	return "", nil
}

// c17Call runs one call on a parsed auth; a panic is the violation C17/parsed-auth-unusable.
func c17Call(s sink, c c17Case, entry, call string, f func()) (ok bool) {
	defer func() {
		if p := recover(); p != nil {
			ok = false
			s.Count("parsed_auth_calls_panicked", 1)
			s.Violation("C17/parsed-auth-unusable", c, "%s: %s accepted the auth bytes (nil error; mutation %s) but %s on the parsed auth panics: %v", c.Scheme, entry, c.Mutation, call, p)
		}
	}()
	f()
	return true
}

// judgeParsedAuth: in = the bytes that were parsed into a (by entry), without error.
func judgeParsedAuth(s sink, c c17Case, class, entry string, a chain.Auth, in []byte, verify bool) {
	msg, orig := mustHex(c.Msg), mustHex(c.Orig)
	if a == nil {
		s.Violation("C17/parsed-auth-unusable", c, "%s: %s returned a nil auth with a nil error (mutation %s)", c.Scheme, entry, c.Mutation)
		return
	}
	s.Count("parsed_auths_checked_usable/"+entry, 1)
	var raw []byte
	if c17Call(s, c, entry, "Bytes()", func() { raw = a.Bytes() }) && !bytes.Equal(raw, in) {
		s.Violation("C17/"+c.Scheme+"/parsed-auth-roundtrip-differs", c, "%s accepted the auth bytes (mutation %s) but Bytes() of the parsed auth = %x is not the input", entry, c.Mutation, raw)
	}
	if len(in) > pkLen[c.Scheme] {
		id := in[0]
		h := sha(in[1 : 1+pkLen[c.Scheme]])
		want := codec.Address(append([]byte{id}, h[:]...))
		var got codec.Address
		// Sponsor first, then Actor, then both again (the address is cached lazily)
		for _, call := range []string{"Sponsor()", "Actor()", "Sponsor()", "Actor()"} {
			call := call
			if !c17Call(s, c, entry, call, func() {
				if call == "Actor()" {
					got = a.Actor()
				} else {
					got = a.Sponsor()
				}
			}) {
				break
			}
			if got[0] != id {
				s.Violation("C17/"+c.Scheme+"/parsed-auth-address-type-id", c, "%s accepted the auth bytes (mutation %s) but %s = %x does not start with the type id %d", entry, c.Mutation, call, got, id)
			} else if got != want {
				s.Violation("C17/"+c.Scheme+"/parsed-auth-address-not-from-public-key", c, "%s accepted the auth bytes (mutation %s) but %s = %x, want type id | sha256(public key bytes) = %x", entry, c.Mutation, call, got, want)
			}
		}
		var tid uint8
		if c17Call(s, c, entry, "GetTypeID()", func() { tid = a.GetTypeID() }) && tid != id {
			s.Violation("C17/"+c.Scheme+"/parsed-auth-type-id", c, "%s accepted the auth bytes (mutation %s) but GetTypeID() = %d, the encoding starts with %d", entry, c.Mutation, tid, id)
		}
	}
	if !verify {
		return
	}
	s.Count("parsed_auths_verified/"+entry, 1)
	var verr error
	if c17Call(s, c, entry, "Verify()", func() { verr = a.Verify(context.Background(), msg) }) {
		switch {
		case verr == nil && !bytes.Equal(in, orig):
			s.Violation("C17/"+c.Scheme+"/"+class+"-verifies", c, "%s: auth bytes differing from the honest encoding (%s) are accepted by %s and verify for the same message", c.Scheme, c.Mutation, entry)
		case verr != nil && bytes.Equal(in, orig):
			s.Violation("C17/"+c.Scheme+"/roundtrip-does-not-verify", c, "the honest auth bytes parsed by %s do not verify: %v", entry, verr)
		}
	}
}

// judgeMutantUsable: the mutant through every auth parse entry point.
// verifyToo: also Verify() the parsed auths (judgeAuthMutant has verified the AuthParser one itself).
func judgeMutantUsable(s sink, c c17Case, class string, verifyToo bool) {
	mut := mustHex(c.Mutant)
	dname, direct := c17DirectParser(c.Scheme)
	entries := []struct {
		name  string
		parse func([]byte) (chain.Auth, error)
	}{{"AuthParser.Unmarshal", parseAuth}}
	if direct != nil {
		entries = append(entries, struct {
			name  string
			parse func([]byte) (chain.Auth, error)
		}{dname, direct})
	}
	for _, e := range entries {
		e := e
		s.Guard("auth-parse/"+e.name, c, func() {
			a, err := e.parse(append([]byte(nil), mut...))
			if err != nil {
				s.Count("usable_parse-rejected/"+e.name, 1)
				return
			}
			judgeParsedAuth(s, c, class, e.name, a, mut, verifyToo && (e.name != "AuthParser.Unmarshal" || class == "honest"))
		})
	}
}
