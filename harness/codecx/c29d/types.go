// Package c29d is type set D of the C29 monitor: same type names as c29a, c29b, c29c;
// other type ids for some names, fixed arrays of structs, a nested struct as the single field.
package c29d

import "github.com/ava-labs/hypersdk/codec"

type Leg struct {
	Amount uint16 `serialize:"true" json:"amount"`
}

// Transfer: the fields of c29a.Transfer in the opposite order.
type Transfer struct {
	Value uint64        `serialize:"true" json:"value"`
	To    codec.Address `serialize:"true" json:"to"`
}

func (*Transfer) GetTypeID() uint8 { return 1 }

type Batch struct {
	Head      Leg         `serialize:"true" json:"head"`
	Transfers [2]Transfer `serialize:"true" json:"transfers"`
}

func (*Batch) GetTypeID() uint8 { return 0 }

type Ping struct {
	Tag string `serialize:"true" json:"tag"`
}

func (*Ping) GetTypeID() uint8 { return 2 }

type Lists struct {
	Legs []Leg      `serialize:"true" json:"legs"`
	Raw  []byte     `serialize:"true" json:"raw"`
	Grid [][]uint16 `serialize:"true" json:"grid"`
}

func (*Lists) GetTypeID() uint8 { return 3 }

type One struct {
	V Leg `serialize:"true" json:"v"`
}

func (*One) GetTypeID() uint8 { return 4 }

// ---- outputs ----

type TransferResult struct {
	SenderBalance   uint32 `serialize:"true" json:"sender_balance"`
	ReceiverBalance uint64 `serialize:"true" json:"receiver_balance"`
}

func (*TransferResult) GetTypeID() uint8 { return 0 }

type Ack struct {
	Leg Leg `serialize:"true" json:"leg"`
}

func (*Ack) GetTypeID() uint8 { return 1 }

type Receipt struct {
	Legs  []Leg  `serialize:"true" json:"legs"`
	Code  int32  `serialize:"true" json:"code"`
	Extra []byte `serialize:"true" json:"extra"`
}

func (*Receipt) GetTypeID() uint8 { return 2 }

func Actions() []codec.Typed {
	return []codec.Typed{&Transfer{}, &Batch{}, &Ping{}, &Lists{}, &One{}}
}

func Outputs() []codec.Typed {
	return []codec.Typed{&TransferResult{}, &Ack{}, &Receipt{}}
}
