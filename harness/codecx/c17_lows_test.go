package codecx

import (
	"context"
	"crypto/elliptic"
	"fmt"
	"math/big"
	"math/rand/v2"

	"github.com/ava-labs/avalanchego/ids"

	"github.com/ava-labs/hypersdk/auth"
	"github.com/ava-labs/hypersdk/chain"
	"github.com/ava-labs/hypersdk/codec"
	"github.com/ava-labs/hypersdk/crypto/secp256r1"
	"github.com/ava-labs/hypersdk/examples/morpheusvm/actions"
	mvm "github.com/ava-labs/hypersdk/examples/morpheusvm/vm"
)

// ---- C17, low-S boundary part (secp256r1) ----
//
// For a valid ECDSA signature (r, s) the pair (r, n-s) is valid ECDSA too, so
// "no alternative encoding of a valid signature verifies" means: of the two,
// exactly the low form (s <= (n-1)/2, the one honest Sign emits) is accepted.
// Honest random signatures never have s near the boundary, so the signatures
// judged here are constructed: choose the nonce k and the value s freely and
// solve  s = k^-1 (z + r d)  for the private key d.  (public key, r, s) is then
// an ordinary valid signature of the message; an independent big-int ECDSA
// verification confirms that before anything is judged.

const c17LowSKind = "low-s-boundary"

type c17LowS struct {
	Kind  string `json:"kind"`
	Msg   string `json:"msg"`
	Priv  string `json:"constructed_private_key"`
	Nonce string `json:"nonce_k"`
	Pub   string `json:"public_key"`
	R     string `json:"r"`
	S     string `json:"s"`
	Where string `json:"s_position"`
}

var (
	p256Half    = new(big.Int).Rsh(p256N, 1) // (n-1)/2, the largest admissible s (n is odd)
	p256P, _    = new(big.Int).SetString("ffffffff00000001000000000000000000000000ffffffffffffffffffffffff", 16)
	p256Curve   = elliptic.P256()
	bigOne      = big.NewInt(1)
	p256NMinus1 = new(big.Int).Sub(p256N, bigOne)
)

func b32(v *big.Int) []byte { return v.FillBytes(make([]byte, 32)) }

// z exactly as ecdsa.Verify derives it from the 32-byte sha256 digest on a 256-bit curve:
// the digest as a big-endian integer (no truncation needed), used modulo n.
func p256Z(msg []byte) *big.Int {
	d := sha(msg)
	return new(big.Int).SetBytes(d[:])
}

// refECDSAValid: textbook ECDSA verification with math/big and crypto/elliptic point
// arithmetic; says nothing about low/high s.
func refECDSAValid(pub []byte, z, r, s *big.Int) bool {
	if r.Sign() <= 0 || s.Sign() <= 0 || r.Cmp(p256N) >= 0 || s.Cmp(p256N) >= 0 {
		return false
	}
	qx, qy := elliptic.UnmarshalCompressed(p256Curve, pub)
	if qx == nil {
		return false
	}
	w := new(big.Int).ModInverse(s, p256N)
	u1 := new(big.Int).Mul(z, w)
	u1.Mod(u1, p256N)
	u2 := new(big.Int).Mul(r, w)
	u2.Mod(u2, p256N)
	if u1.Sign() == 0 || u2.Sign() == 0 {
		return false // never constructed; keeps the point at infinity out of the arithmetic
	}
	x1, y1 := p256Curve.ScalarBaseMult(b32(u1))
	x2, y2 := p256Curve.ScalarMult(qx, qy, b32(u2))
	x, y := p256Curve.Add(x1, y1, x2, y2)
	if x.Sign() == 0 && y.Sign() == 0 {
		return false
	}
	return new(big.Int).Mod(x, p256N).Cmp(r) == 0
}

func randScalar(rng *rand.Rand) *big.Int {
	v := new(big.Int).SetBytes(randBytes(rng, 40))
	v.Mod(v, p256NMinus1)
	return v.Add(v, bigOne) // 1 .. n-1
}

// constructLowS builds a key for which (r, s) signs msg.
func constructLowS(rng *rand.Rand, msg []byte, s *big.Int, where string) c17LowS {
	z := p256Z(msg)
	for {
		k := randScalar(rng)
		x, _ := p256Curve.ScalarBaseMult(b32(k))
		r := new(big.Int).Mod(x, p256N)
		if r.Sign() == 0 {
			continue
		}
		// d = (s*k - z) * r^-1 mod n
		d := new(big.Int).Mul(s, k)
		d.Sub(d, z)
		d.Mul(d, new(big.Int).ModInverse(r, p256N))
		d.Mod(d, p256N)
		if d.Sign() == 0 {
			continue
		}
		qx, qy := p256Curve.ScalarBaseMult(b32(d))
		pub := elliptic.MarshalCompressed(p256Curve, qx, qy)
		return c17LowS{Kind: c17LowSKind, Msg: hx(msg), Priv: hx(b32(d)), Nonce: hx(b32(k)), Pub: hx(pub), R: hx(b32(r)), S: hx(b32(s)), Where: where}
	}
}

type lowSPoint struct {
	name string
	s    *big.Int
}

// lowSCatalog: the fixed boundary values of s (all within 1 .. n-1).
func lowSCatalog() []lowSPoint {
	var out []lowSPoint
	add := func(name string, s *big.Int) {
		if s.Sign() > 0 && s.Cmp(p256N) < 0 {
			out = append(out, lowSPoint{name, s})
		}
	}
	off := func(d *big.Int) *big.Int { return new(big.Int).Add(p256Half, d) }
	add("half", off(big.NewInt(0)))
	for _, d := range []int64{1, 2, 3} {
		add(fmt.Sprintf("half+%d", d), off(big.NewInt(d)))
		add(fmt.Sprintf("half-%d", d), off(big.NewInt(-d)))
	}
	for j := uint(2); j <= 254; j++ {
		p := new(big.Int).Lsh(bigOne, j)
		add(fmt.Sprintf("half+2^%d", j), off(p))
		add(fmt.Sprintf("half-2^%d", j), off(new(big.Int).Neg(p)))
	}
	// the ends of the scalar range
	add("1", big.NewInt(1))
	add("2", big.NewInt(2))
	add("n-1", new(big.Int).Sub(p256N, big.NewInt(1)))
	add("n-2", new(big.Int).Sub(p256N, big.NewInt(2)))
	// other "half of something" constants near the boundary: the top bit and the field prime
	t255 := new(big.Int).Lsh(bigOne, 255)
	add("2^255-1", new(big.Int).Sub(t255, bigOne))
	add("2^255", t255)
	add("2^255+1", new(big.Int).Add(t255, bigOne))
	ph := new(big.Int).Rsh(p256P, 1)
	add("(p-1)/2-1", new(big.Int).Sub(ph, bigOne))
	add("(p-1)/2", ph)
	add("(p-1)/2+1", new(big.Int).Add(ph, bigOne))
	add("half+(p-n)/4", off(new(big.Int).Rsh(new(big.Int).Sub(p256P, p256N), 2)))
	return out
}

// judgeLowS decides one constructed signature and its twin (r, n-s); everything is taken
// from the witness, so a replay runs exactly this.
func judgeLowS(sk sink, w c17LowS) string {
	msg := mustHex(w.Msg)
	pubB := mustHex(w.Pub)
	r := new(big.Int).SetBytes(mustHex(w.R))
	s := new(big.Int).SetBytes(mustHex(w.S))
	z := p256Z(msg)
	twin := new(big.Int).Sub(p256N, s)
	if len(pubB) != secp256r1.PublicKeyLen || !refECDSAValid(pubB, z, r, s) || !refECDSAValid(pubB, z, r, twin) {
		sk.Count("lows_construction_not_confirmed_by_oracle", 1)
		return "not-constructed"
	}
	sk.Count("lows_constructed_signatures_confirmed_by_oracle", 2)
	pub := secp256r1.PublicKey(pubB)
	lo, hi := s, twin
	if lo.Cmp(hi) > 0 {
		lo, hi = hi, lo
	}
	if lo.Cmp(p256Half) > 0 || hi.Cmp(p256Half) <= 0 {
		panic("harness: of s and n-s exactly one is <= (n-1)/2")
	}
	sk.Eval()
	verifies := func(v *big.Int) (accepted bool, paths string) {
		var sig secp256r1.Signature
		copy(sig[:32], b32(r))
		copy(sig[32:], b32(v))
		sk.Guard("secp256r1-low-s-verify", w, func() {
			if secp256r1.Verify(msg, pub, sig) {
				accepted = true
				paths += " secp256r1.Verify"
			}
			a := &auth.SECP256R1{Signer: pub, Signature: sig}
			if a.Verify(context.Background(), msg) == nil {
				accepted = true
				paths += " auth.SECP256R1.Verify"
			}
			raw := append(append([]byte{auth.SECP256R1ID}, pubB...), sig[:]...)
			if p, err := parseAuth(raw); err == nil && p.Verify(context.Background(), msg) == nil {
				accepted = true
				paths += " AuthParser.Unmarshal+Verify"
			}
		})
		return accepted, paths
	}
	loOK, loPaths := verifies(lo)
	hiOK, hiPaths := verifies(hi)
	const allPaths = " secp256r1.Verify auth.SECP256R1.Verify AuthParser.Unmarshal+Verify"
	if loPaths != allPaths {
		sk.Violation("C17/secp256r1/low-s-boundary-rejected", w, "valid signature with s = %x <= (n-1)/2 (the form honest Sign emits for this key and nonce) is not accepted by every verifier; accepted by:%s", lo, loPaths)
	}
	if hiOK {
		sk.Violation("C17/secp256r1/high-s-boundary-verifies", w, "valid ECDSA pair (r, s) with s = %x > (n-1)/2 (s - (n-1)/2 has %d bits) is accepted by:%s", hi, new(big.Int).Sub(hi, p256Half).BitLen(), hiPaths)
	}
	if loOK && hiOK {
		sk.Violation("C17/secp256r1/both-s-and-n-minus-s-verify", w, "both (r, s) and (r, n-s) verify for one key and message (s = %x, n-s = %x): a third party can re-encode the signature", lo, hi)
	}
	outcome := fmt.Sprintf("low-accepted=%v,high-accepted=%v", loPaths == allPaths, hiOK)
	sk.Count("lows_low_form_accepted", b2i(loPaths == allPaths))
	sk.Count("lows_high_form_rejected", b2i(!hiOK))
	dist := new(big.Int).Sub(hi, p256Half).BitLen() // hi - half = half + 1 - lo: distance of the pair from the boundary
	sk.Count(fmt.Sprintf("lows_pairs_by_distance_from_boundary/2^%03d..", (dist/32)*32), 1)
	return outcome
}

func b2i(b bool) int {
	if b {
		return 1
	}
	return 0
}

// runC17LowS: n constructed signatures; the fixed catalog first, then random boundary
// neighbourhoods of every magnitude and uniformly random s.
func runC17LowS(sk sink, rng *rand.Rand, n int) {
	if p256N.Cmp(p256Curve.Params().N) != 0 || p256P.Cmp(p256Curve.Params().P) != 0 {
		panic("harness: P-256 constants")
	}
	cat := lowSCatalog()
	for i := 0; i < n; i++ {
		var pt lowSPoint
		switch pick := rng.IntN(20); {
		case i < len(cat):
			pt = cat[i]
		case pick < 9:
			pt = cat[rng.IntN(len(cat))]
		case pick < 17: // half +- (2^j + random below 2^j)
			j := uint(rng.IntN(255))
			d := new(big.Int).SetBytes(randBytes(rng, 32))
			d.Mod(d, new(big.Int).Lsh(bigOne, j))
			d.Add(d, new(big.Int).Lsh(bigOne, j))
			sign := "+"
			if rng.IntN(2) == 0 {
				d.Neg(d)
				sign = "-"
			}
			pt = lowSPoint{fmt.Sprintf("half%s~2^%d", sign, j), new(big.Int).Add(p256Half, d)}
			if pt.s.Sign() <= 0 || pt.s.Cmp(p256N) >= 0 {
				pt = lowSPoint{"uniform", randScalar(rng)}
			}
		default:
			pt = lowSPoint{"uniform", randScalar(rng)}
		}
		// message: unsigned bytes of a real transfer transaction, or arbitrary bytes (incl. empty)
		var msg []byte
		var td *chain.TransactionData
		if rng.IntN(3) > 0 {
			var cid ids.ID
			copy(cid[:], randBytes(rng, 32))
			t := &actions.Transfer{Value: 1 + rng.Uint64()>>uint(rng.IntN(63)), Memo: randBytes(rng, rng.IntN(40))}
			copy(t.To[:], randBytes(rng, codec.AddressLen))
			x := chain.NewTxData(chain.Base{Timestamp: int64(1_700_000_000_000 + rng.IntN(1000)*1000), ChainID: cid, MaxFee: uint64(rng.IntN(1 << 30))}, []chain.Action{t})
			td = &x
			msg = td.UnsignedBytes()
		} else {
			msg = randBytes(rng, []int{0, 1, 32, 200}[rng.IntN(4)])
		}
		w := constructLowS(rng, msg, pt.s, pt.name)
		outcome := judgeLowS(sk, w)
		sk.Count("lows_cases", 1)
		if outcome == "not-constructed" {
			continue
		}
		side := "low"
		if pt.s.Cmp(p256Half) > 0 {
			side = "high"
		}
		sk.Count("lows_constructed_on_"+side+"_side", 1)
		sk.Distinct("secp256r1-low-s|", pt.name, "|", outcome)
		if i%97 == 0 {
			sk.Sample(map[string]string{"scheme": "secp256r1", "low-s boundary, s": pt.name, "outcome": outcome})
		}
		// the two forms inside the transaction: at most one transaction id may verify
		if td != nil {
			var idsSeen []ids.ID
			for _, v := range []*big.Int{pt.s, new(big.Int).Sub(p256N, pt.s)} {
				authBytes := append(append([]byte{auth.SECP256R1ID}, mustHex(w.Pub)...), append(mustHex(w.R), b32(v)...)...)
				raw := refEncodeTx(td.Base.Timestamp, td.Base.ChainID, td.Base.MaxFee, actionBytesOf(td.Actions), authBytes)
				sk.Guard("tx-with-constructed-auth", w, func() {
					mt, err := chain.UnmarshalTx(raw, mvm.Parser)
					if err != nil {
						sk.Count("lows_tx_parse-rejected", 1)
						return
					}
					if err := mt.VerifyAuth(context.Background()); err != nil {
						sk.Count("lows_tx_verify-rejected", 1)
						return
					}
					sk.Count("lows_tx_verified", 1)
					idsSeen = append(idsSeen, mt.GetID())
				})
			}
			if len(idsSeen) == 2 && idsSeen[0] != idsSeen[1] {
				sk.Violation("C17/secp256r1/high-s-boundary-changes-tx-id", w, "one transaction verifies under two ids %s and %s: its secp256r1 signature re-encoded as (r, n-s) is accepted", idsSeen[0], idsSeen[1])
			}
		}
	}
}
