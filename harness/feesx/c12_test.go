package feesx

import (
	"context"
	"encoding/hex"
	"errors"
	"fmt"
	"math/big"
	"math/rand/v2"
	"runtime"
	"sort"
	"strings"
	"sync"
	"sync/atomic"
	"testing"
	"time"

	"github.com/anishathalye/porcupine"
	"github.com/ava-labs/avalanchego/x/merkledb"

	"github.com/ava-labs/hypersdk/chain"
	"github.com/ava-labs/hypersdk/codec"
	"github.com/ava-labs/hypersdk/fees"
	"github.com/ava-labs/hypersdk/genesis"
	ifees "github.com/ava-labs/hypersdk/internal/fees"
	"github.com/ava-labs/hypersdk/keys"
	"github.com/ava-labs/hypersdk/state"
	"github.com/ava-labs/hypersdk/zzverif/chainfx"
	"github.com/ava-labs/hypersdk/zzverif/kit"
)

// =====================================================================
// (a) Transaction.Units against a math/big recomputation
// =====================================================================

// unitCosts = base compute, key read, value read, key allocate, value allocate, key write, value write
type unitCosts [7]uint64

var c12CostPool = []uint64{0, 1, 2, 7, 1 << 32, 1 << 63, ^uint64(0)}

func c12Cost(rng *rand.Rand) uint64 {
	if rng.IntN(3) == 0 {
		return c12CostPool[rng.IntN(len(c12CostPool))]
	}
	return uint64(rng.IntN(50))
}

func (c unitCosts) apply(r *genesis.Rules) {
	r.BaseComputeUnits = c[0]
	r.StorageKeyReadUnits, r.StorageValueReadUnits = c[1], c[2]
	r.StorageKeyAllocateUnits, r.StorageValueAllocateUnits = c[3], c[4]
	r.StorageKeyWriteUnits, r.StorageValueWriteUnits = c[5], c[6]
}

func costsOf(r *genesis.Rules) unitCosts {
	return unitCosts{r.BaseComputeUnits, r.StorageKeyReadUnits, r.StorageValueReadUnits, r.StorageKeyAllocateUnits, r.StorageValueAllocateUnits, r.StorageKeyWriteUnits, r.StorageValueWriteUnits}
}

// unitsOracle is the statement's metering rule in exact arithmetic: encoded size; base +
// action + auth compute; per *distinct* declared key: key cost + declared chunk count
// (the big-endian uint16 suffix of the key) x value cost, for read, allocate and write.
// ok=false when a dimension does not fit into 64 bits (the real code must reject).
func unitsOracle(c unitCosts, size int, computes []uint64, declared map[string]struct{}) (out [5]uint64, ok bool, over [5]bool) {
	compute := bu(c[0])
	for _, v := range computes {
		compute.Add(compute, bu(v))
	}
	reads, allocs, writes := new(big.Int), new(big.Int), new(big.Int)
	for k := range declared {
		chunks := bu(uint64(k[len(k)-2])<<8 | uint64(k[len(k)-1]))
		reads.Add(reads, bu(c[1])).Add(reads, new(big.Int).Mul(chunks, bu(c[2])))
		allocs.Add(allocs, bu(c[3])).Add(allocs, new(big.Int).Mul(chunks, bu(c[4])))
		writes.Add(writes, bu(c[5])).Add(writes, new(big.Int).Mul(chunks, bu(c[6])))
	}
	ok = true
	out[0] = uint64(size)
	for i, v := range []*big.Int{compute, reads, allocs, writes} {
		if !fitsU64(v) {
			ok = false
			over[i+1] = true
			continue
		}
		out[i+1] = v.Uint64()
	}
	return out, ok, over
}

// sponsorKeysBH is a balance handler whose sponsor keys are chosen by the workload
// (Units only asks it for SponsorStateKeys).
type sponsorKeysBH struct {
	chain.BalanceHandler
	keys state.Keys
}

func (s sponsorKeysBH) SponsorStateKeys(codec.Address) state.Keys { return s.keys }

type c12UnitsCase struct {
	Part        string    `json:"part"`
	Costs       [7]string `json:"costs"`
	Tx          string    `json:"tx"`
	SponsorKeys []string  `json:"sponsor_keys"`
	Describe    string    `json:"describe,omitempty"`
}

var c12Suffixes = []uint16{0, 0, 1, 1, 2, 3, 63, 64, 255, 256, 257, 1 << 15, 65534, 65535, 65535}

func c12Key(rng *rand.Rand) []byte {
	names := [][]byte{{0x10}, {0x10, 0x00}, {0x11}, {0x20, 0x01}, {}}
	name := names[rng.IntN(len(names))]
	suf := c12Suffixes[rng.IntN(len(c12Suffixes))]
	if rng.IntN(3) == 0 {
		suf = uint16(rng.UintN(65536))
	}
	return keys.EncodeChunks(append([]byte(nil), name...), suf)
}

func judgeUnits(r *kit.Run, costs unitCosts, tx *chain.Transaction, sponsor state.Keys, how string) (nontrivial bool, shape string) {
	c := c12UnitsCase{Part: "units", Tx: kit.Hex(tx.Bytes()), Describe: how + " " + chainfx.DescribeTx(tx)}
	for i, v := range costs {
		c.Costs[i] = bu(v).String()
	}
	for k := range sponsor {
		c.SponsorKeys = append(c.SponsorKeys, kit.Hex([]byte(k)))
	}
	sort.Strings(c.SponsorKeys)
	rules := genesis.NewDefaultRules()
	costs.apply(rules)
	// what was declared, taken from the action descriptions (harness types), not from chain code
	declared := map[string]struct{}{}
	var computes []uint64
	perAction := 0
	dupAcross := false
	for _, a := range tx.Actions {
		pa := a.(*chainfx.ProgAction)
		computes = append(computes, pa.Compute)
		for _, d := range pa.Keys {
			if _, seen := declared[string(d.Key)]; seen {
				dupAcross = true
			}
			declared[string(d.Key)] = struct{}{}
			perAction++
		}
	}
	dupSponsor := false
	for k := range sponsor {
		if _, seen := declared[k]; seen {
			dupSponsor = true
		}
		declared[k] = struct{}{}
	}
	computes = append(computes, tx.Auth.(*chainfx.SpyAuth).Compute)
	want, fits, over := unitsOracle(costs, len(tx.Bytes()), computes, declared)
	r.Eval()
	var got fees.Dimensions
	var err error
	panicked := true
	r.Guard("Transaction.Units", c, func() {
		got, err = tx.Units(sponsorKeysBH{keys: sponsor}, rules)
		panicked = false
	})
	if panicked {
		return false, ""
	}
	// the units of a transaction are a function of the transaction: asking again (the processor,
	// the builder and admission all do) must give the same answer, in particular after a refusal
	var got2 fees.Dimensions
	var err2 error
	r.Guard("Transaction.Units", c, func() { got2, err2 = tx.Units(sponsorKeysBH{keys: sponsor}, rules) })
	if (err == nil) != (err2 == nil) || (err == nil && got != got2) {
		r.Violation("C12/units-differ-on-second-call", c, "first Units call returned (%v, %v), the second (%v, %v)", got, err, got2, err2)
	}
	// ... and they are a function of the rules in force: the same transaction object metered under
	// other rules (a rules upgrade between admission and inclusion) must follow those rules
	var costs2 unitCosts
	for i := range costs2 {
		costs2[i] = (costs[i]*2654435761 + uint64(i)*977 + uint64(len(tx.Bytes()))) % 97
	}
	rules2 := genesis.NewDefaultRules()
	costs2.apply(rules2)
	want2, fits2, _ := unitsOracle(costs2, len(tx.Bytes()), computes, declared)
	var got3 fees.Dimensions
	var err3 error
	r.Guard("Transaction.Units", c, func() { got3, err3 = tx.Units(sponsorKeysBH{keys: sponsor}, rules2) })
	if fits2 && (err3 != nil || [5]uint64(got3) != want2) {
		r.Violation("C12/units-ignore-rules-of-second-call", c, "the same transaction metered under other rules (costs %v): Units = (%v, %v), exact recomputation %v", costs2, got3, err3, want2)
	}
	switch {
	case !fits && err == nil:
		r.Violation("C12/units-overflow-accepted", c, "exact units overflow 64 bits in dimensions %v but Units returned %v without error", over, got)
	case fits && err != nil:
		r.Violation("C12/units-spurious-error", c, "exact units %v fit but Units failed: %v", want, err)
	case fits && [5]uint64(got) != want:
		r.Violation("C12/units-mismatch", c, "Units = %v, exact recomputation from the declared keys = %v", got, want)
	}
	if !fits {
		r.Count("units_overflow_cases", 1)
	} else {
		r.Count("units_fitting_cases", 1)
	}
	if dupAcross {
		r.Count("units_cases_with_key_shared_by_actions", 1)
	}
	if dupSponsor {
		r.Count("units_cases_with_key_shared_with_sponsor", 1)
	}
	var cls []string
	for _, v := range costs {
		switch {
		case v == 0:
			cls = append(cls, "0")
		case v < 64:
			cls = append(cls, "s")
		case v < 1<<63:
			cls = append(cls, "m")
		default:
			cls = append(cls, "L")
		}
	}
	shape = fmt.Sprintf("units|a=%d|k=%d/%d|dupA=%v|dupS=%v|over=%v|%s", len(tx.Actions), len(declared), perAction, dupAcross, dupSponsor, over, strings.Join(cls, ""))
	return len(declared) >= 2, shape
}

func partUnits(r *kit.Run) {
	rng := r.Rand("units")
	n := r.N(30000, 400000)
	parser := &chainfx.Parser{}
	for i := 0; i < n; i++ {
		var costs unitCosts
		for j := range costs {
			costs[j] = c12Cost(rng)
		}
		pool := make([][]byte, 1+rng.IntN(5)) // a small pool makes duplicates likely
		for j := range pool {
			pool[j] = c12Key(rng)
		}
		var actions []chain.Action
		for j, na := 0, 1+rng.IntN(4); j < na; j++ {
			a := &chainfx.ProgAction{Nonce: uint64(i)<<8 | uint64(j), Compute: c12Cost(rng), Start: -1, End: -1}
			for k, nk := 0, rng.IntN(5); k < nk; k++ {
				a.Keys = append(a.Keys, chainfx.KeyDecl{Key: pool[rng.IntN(len(pool))], Perm: state.Permissions(rng.IntN(8))})
			}
			a.Canonicalize()
			actions = append(actions, a)
		}
		sponsorAddr := chainfx.SpyAddr(rng.IntN(4))
		sponsor := state.Keys{}
		for j, ns := 0, 1+rng.IntN(2); j < ns; j++ {
			k := c12Key(rng)
			if rng.IntN(3) == 0 {
				k = pool[rng.IntN(len(pool))]
			}
			sponsor[string(k)] = state.Read | state.Write
		}
		af := &chainfx.SpyFactory{Auth: chainfx.SpyAuth{ActorAddr: sponsorAddr, SponsorAddr: sponsorAddr, Compute: c12Cost(rng), Start: -1, End: -1, OK: true}}
		tx, err := chainfx.Tx(chain.Base{Timestamp: 1_700_000_000_000, ChainID: [32]byte{5}, MaxFee: rng.Uint64()}, actions, af)
		if err != nil {
			r.T.Fatalf("harness: sign: %v", err)
		}
		nt, shape := judgeUnits(r, costs, tx, sponsor, "constructed")
		if nt {
			r.Distinct(shape)
		}
		if i < 2 {
			r.Sample(map[string]any{"part": "units", "costs": costs, "tx": chainfx.DescribeTx(tx)})
		}
		if i%4 == 0 { // the same transaction as a peer sees it (parsed from bytes)
			rt, err := chain.UnmarshalTx(tx.Bytes(), parser)
			if err != nil {
				r.Violation("C12/harness-reparse", c12UnitsCase{Part: "units", Tx: kit.Hex(tx.Bytes())}, "cannot re-parse a constructed transaction: %v", err)
				continue
			}
			judgeUnits(r, costs, rt, sponsor, "parsed")
		}
	}
}

// =====================================================================
// (b) Manager.Consume against a big-int model (sequential)
// =====================================================================

type c12Call struct {
	Units [5]string `json:"units"`
	Limit [5]string `json:"limit"`
}

type c12ConsumeCase struct {
	Part    string    `json:"part"`
	Initial [5]string `json:"initial"`
	Calls   []c12Call `json:"calls"`
}

// consumeModel: all-or-nothing; failing = every dimension that does not fit.
func consumeModel(st [5]uint64, units, limit fees.Dimensions) (next [5]uint64, ok bool, failing [5]bool) {
	ok = true
	for i := 0; i < 5; i++ {
		s := new(big.Int).Add(bu(st[i]), bu(units[i]))
		if s.Cmp(bu(limit[i])) > 0 {
			ok = false
			failing[i] = true
		}
	}
	if !ok {
		return st, false, failing
	}
	for i := 0; i < 5; i++ {
		next[i] = st[i] + units[i]
	}
	return next, true, failing
}

func runConsumeCase(r *kit.Run, c c12ConsumeCase) (accepted, refused int, kinds string) {
	r.Eval()
	st := [5]uint64(parseU64s(c.Initial))
	m := ifees.NewManager(nil)
	for i := fees.Dimension(0); i < fees.FeeDimensions; i++ {
		m.SetLastConsumed(i, st[i])
	}
	var kb strings.Builder
	for ci, call := range c.Calls {
		units, limit := parseU64s(call.Units), parseU64s(call.Limit)
		next, wantOK, failing := consumeModel(st, units, limit)
		var ok bool
		var dim fees.Dimension
		panicked := true
		r.Guard("Manager.Consume", c, func() { ok, dim = m.Consume(units, limit); panicked = false })
		if panicked {
			return
		}
		got := [5]uint64(m.UnitsConsumed())
		switch {
		case ok != wantOK && ok:
			r.Violation("C12/consume-accepted-over-limit", c, "call %d: consumed %v + units %v exceeds limit %v in dimensions %v but Consume accepted", ci, st, units, limit, failing)
		case ok != wantOK:
			r.Violation("C12/consume-refused-fitting", c, "call %d: consumed %v + units %v fits limit %v but Consume refused (dimension %d)", ci, st, units, limit, dim)
		case !ok && (dim < 0 || dim >= fees.FeeDimensions || !failing[dim]):
			r.Violation("C12/consume-wrong-failing-dimension", c, "call %d: Consume refused naming dimension %d, but the dimensions that do not fit are %v", ci, dim, failing)
		}
		if got != next {
			if !wantOK {
				r.Violation("C12/consume-refusal-changed-consumption", c, "call %d: refused Consume must leave consumption %v unchanged, now %v", ci, st, got)
			} else {
				r.Violation("C12/consume-wrong-sum", c, "call %d: consumption %v after accepting units %v on %v, want %v", ci, got, units, st, next)
			}
			return
		}
		for i := fees.Dimension(0); i < fees.FeeDimensions; i++ {
			if v := m.LastConsumed(i); v != next[i] {
				r.Violation("C12/consume-wrong-sum", c, "call %d: LastConsumed(%d)=%d, want %d", ci, i, v, next[i])
			}
		}
		if wantOK {
			accepted++
			kb.WriteByte('A')
		} else {
			refused++
			nf := 0
			over64 := false
			for i, f := range failing {
				if f {
					nf++
					if !fitsU64(new(big.Int).Add(bu(st[i]), bu(units[i]))) {
						over64 = true
					}
				}
			}
			fmt.Fprintf(&kb, "R%d", nf)
			if over64 {
				kb.WriteByte('o')
			}
		}
		st = next
	}
	return accepted, refused, kb.String()
}

func partConsume(r *kit.Run) {
	rng := r.Rand("consume")
	n := r.N(30000, 400000)
	for i := 0; i < n; i++ {
		c := c12ConsumeCase{Part: "consume"}
		var st fees.Dimensions
		if rng.IntN(2) == 0 {
			st = dimsOf(func() uint64 { return anyU64(rng) })
		}
		c.Initial = u64s(st)
		cur := [5]uint64(st)
		for k, nc := 0, 1+rng.IntN(12); k < nc; k++ {
			var units, limit fees.Dimensions
			tight := rng.IntN(3) // how many dimensions get a boundary limit
			for d := 0; d < 5; d++ {
				switch rng.IntN(4) {
				case 0:
					units[d] = anyU64(rng)
				case 1:
					units[d] = 0
				default:
					units[d] = uint64(rng.IntN(1000))
				}
				sum := new(big.Int).Add(bu(cur[d]), bu(units[d]))
				switch {
				case tight > 0 && rng.IntN(2) == 0: // limit at sum-1, sum, sum+1
					tight--
					l := new(big.Int).Add(sum, big.NewInt(int64(rng.IntN(3))-1))
					limit[d] = satU64(l)
				case rng.IntN(6) == 0:
					limit[d] = anyU64(rng)
				default:
					limit[d] = ^uint64(0)
				}
			}
			c.Calls = append(c.Calls, c12Call{Units: u64s(units), Limit: u64s(limit)})
			if nx, ok, _ := consumeModel(cur, units, limit); ok {
				cur = nx
			}
		}
		acc, ref, kinds := runConsumeCase(r, c)
		r.Count("consume_accepted", acc)
		r.Count("consume_refused", ref)
		if acc > 0 && ref > 0 {
			r.Distinct("consume|", kinds)
		}
		if i < 1 {
			r.Sample(c)
		}
	}
}

// =====================================================================
// (c) concurrent Consume / UnitsConsumed / LastConsumed: linearizability
// =====================================================================

type c12In struct {
	Op    string // consume | units | last
	Units fees.Dimensions
	Limit fees.Dimensions
	Dim   fees.Dimension
}

type c12Out struct {
	OK   bool
	Dim  fees.Dimension
	Dims fees.Dimensions
	V    uint64
}

var c12PorcupineModel = porcupine.Model{
	Init: func() interface{} { return [5]uint64{} },
	Step: func(state, input, output interface{}) (bool, interface{}) {
		st := state.([5]uint64)
		in, out := input.(c12In), output.(c12Out)
		switch in.Op {
		case "consume":
			next, ok, failing := consumeModel(st, in.Units, in.Limit)
			if ok != out.OK {
				return false, st
			}
			if !ok && (out.Dim < 0 || out.Dim >= fees.FeeDimensions || !failing[out.Dim]) {
				return false, st
			}
			return true, next
		case "units":
			return [5]uint64(out.Dims) == st, st
		default:
			return out.V == st[in.Dim], st
		}
	},
	DescribeOperation: func(input, output interface{}) string {
		return fmt.Sprintf("%+v -> %+v", input, output)
	},
}

type c12HistOp struct {
	Client int    `json:"client"`
	Call   int64  `json:"call"`
	Return int64  `json:"return"`
	In     string `json:"in"`
	Out    string `json:"out"`
	in     c12In
	out    c12Out
}

type c12History struct {
	Part string      `json:"part"`
	Ops  []c12HistOp `json:"ops"`
}

func checkHistory(r *kit.Run, h c12History) {
	ops := make([]porcupine.Operation, len(h.Ops))
	for i, o := range h.Ops {
		ops[i] = porcupine.Operation{ClientId: o.Client, Input: o.in, Call: o.Call, Output: o.out, Return: o.Return}
	}
	res := porcupine.CheckOperationsTimeout(c12PorcupineModel, ops, 60*time.Second)
	switch res {
	case porcupine.Ok:
	case porcupine.Illegal:
		r.Violation("C12/consume-not-linearizable", h, "history of %d concurrent Consume/UnitsConsumed/LastConsumed calls has no sequential explanation under the all-or-nothing model", len(h.Ops))
	default:
		r.Inconclusive("porcupine returned Unknown for a history of %d operations", len(h.Ops))
	}
}

func partConcurrent(r *kit.Run) {
	rng := r.Rand("concurrent")
	n := r.N(6000, 40000)
	for i := 0; i < n; i++ {
		clients := 2 + rng.IntN(3)
		perClient := 3 + rng.IntN(6)
		// one limit per history; units sized so that roughly half of the Consume calls fit
		var limit fees.Dimensions
		for d := range limit {
			limit[d] = uint64(1 + rng.IntN(1000))
			if rng.IntN(4) == 0 {
				limit[d] = ^uint64(0)
			}
		}
		plan := make([][]c12In, clients)
		for c := range plan {
			for k := 0; k < perClient; k++ {
				switch x := rng.IntN(10); {
				case x < 6:
					in := c12In{Op: "consume", Limit: limit}
					for d := range in.Units {
						if limit[d] == ^uint64(0) {
							in.Units[d] = rng.Uint64() >> uint(rng.IntN(8))
						} else {
							in.Units[d] = uint64(rng.IntN(int(limit[d])*2/(clients*perClient/2+1) + 1))
						}
					}
					plan[c] = append(plan[c], in)
				case x < 8:
					plan[c] = append(plan[c], c12In{Op: "units"})
				default:
					plan[c] = append(plan[c], c12In{Op: "last", Dim: fees.Dimension(rng.IntN(5))})
				}
			}
		}
		m := ifees.NewManager(nil)
		var clock kit.Clock
		results := make([][]c12HistOp, clients)
		var wg sync.WaitGroup
		var ready atomic.Int32
		var panics atomic.Int32
		for c := 0; c < clients; c++ {
			wg.Add(1)
			go func(c int) {
				defer wg.Done()
				defer func() {
					if p := recover(); p != nil {
						panics.Add(1)
					}
				}()
				for k, in := range plan[c] {
					// round barrier: all clients issue their k-th call at (nearly) the same instant
					ready.Add(1)
					for spins := 0; ready.Load() < int32((k+1)*clients); spins++ {
						if spins%64 == 63 {
							runtime.Gosched()
						}
					}
					op := c12HistOp{Client: c, in: in}
					op.Call = clock.Tick()
					switch in.Op {
					case "consume":
						op.out.OK, op.out.Dim = m.Consume(in.Units, in.Limit)
					case "units":
						op.out.Dims = m.UnitsConsumed()
					default:
						op.out.V = m.LastConsumed(in.Dim)
					}
					op.Return = clock.Tick()
					results[c] = append(results[c], op)
				}
			}(c)
		}
		wg.Wait()
		h := c12History{Part: "concurrent"}
		for _, rs := range results {
			h.Ops = append(h.Ops, rs...)
		}
		// a final sequential read pins the end state
		fin := c12HistOp{Client: clients, in: c12In{Op: "units"}}
		fin.Call = clock.Tick()
		fin.out.Dims = m.UnitsConsumed()
		fin.Return = clock.Tick()
		h.Ops = append(h.Ops, fin)
		for k := range h.Ops {
			h.Ops[k].In = fmt.Sprintf("%+v", h.Ops[k].in)
			h.Ops[k].Out = fmt.Sprintf("%+v", h.Ops[k].out)
		}
		r.Eval()
		if panics.Load() > 0 {
			r.Violation("panic/Manager.concurrent", h, "panic in a concurrent fee-manager call")
			continue
		}
		checkHistory(r, h)
		overlaps, accepted, refused := 0, 0, 0
		for a := range h.Ops {
			if h.Ops[a].in.Op == "consume" {
				if h.Ops[a].out.OK {
					accepted++
				} else {
					refused++
				}
			}
			for b := a + 1; b < len(h.Ops); b++ {
				x, y := h.Ops[a], h.Ops[b]
				if x.Client != y.Client && x.Call < y.Return && y.Call < x.Return && (x.in.Op == "consume" || y.in.Op == "consume") {
					overlaps++
				}
			}
		}
		r.Count("concurrent_ops", len(h.Ops))
		r.Count("concurrent_overlapping_pairs_with_consume", overlaps)
		r.Count("concurrent_consume_accepted", accepted)
		r.Count("concurrent_consume_refused", refused)
		if overlaps > 0 {
			r.Count("concurrent_histories_with_overlap", 1)
			// distinct = order of call/return events by client
			sort.Slice(h.Ops, func(a, b int) bool { return h.Ops[a].Call < h.Ops[b].Call })
			var fp strings.Builder
			for _, o := range h.Ops {
				fmt.Fprintf(&fp, "%d%c%v@%d-%d;", o.Client, o.in.Op[0], o.out.OK, o.Call, o.Return)
			}
			r.Distinct("conc|", fp.String())
		}
	}
}

// =====================================================================
// (d) block level: processor (verified blocks) and builder (built blocks)
// =====================================================================

type c12BlockWitness struct {
	Part     string    `json:"part"`
	Case     int       `json:"case"`
	Block    int       `json:"block"`
	MaxUnits [5]string `json:"max_block_units"`
	Txs      []string  `json:"txs"`
	TxUnits  []string  `json:"tx_units_oracle"`
	TxBytes  []string  `json:"tx_bytes"`
	Cfg      string    `json:"cfg"`
}

func blockRules() *genesis.Rules {
	r := chainfx.LooseRules()
	return r
}

// txUnitsOracle meters a fixture transaction (ProgActions + any auth, prefix balance handler).
func txUnitsOracle(rules *genesis.Rules, tx *chain.Transaction, balKey string) ([5]uint64, bool) {
	declared := map[string]struct{}{balKey: {}}
	var computes []uint64
	for _, a := range tx.Actions {
		pa := a.(*chainfx.ProgAction)
		computes = append(computes, pa.Compute)
		for _, d := range pa.Keys {
			declared[string(d.Key)] = struct{}{}
		}
	}
	computes = append(computes, tx.Auth.ComputeUnits(rules)) // constant of the auth scheme / SpyAuth field
	u, ok, _ := unitsOracle(costsOf(rules), len(tx.Bytes()), computes, declared)
	return u, ok
}

// chooseLimits picks per-dimension block maxima around the prefix sums of the block so
// that exact fits, off-by-one overshoots and roomy limits all occur.
func chooseLimits(rng *rand.Rand, units [][5]uint64) fees.Dimensions {
	var lim fees.Dimensions
	for d := 0; d < 5; d++ {
		lim[d] = 1 << 40
	}
	if len(units) == 0 {
		return lim
	}
	if rng.IntN(5) == 0 {
		return lim // roomy in every dimension
	}
	for _, d := range rng.Perm(5)[:1+rng.IntN(2)] { // one or two binding dimensions
		k := len(units) // prefix length: the whole block half of the time
		if rng.IntN(2) == 0 {
			k = 1 + rng.IntN(len(units))
		}
		var sum uint64
		for _, u := range units[:k] {
			sum += u[d]
		}
		switch rng.IntN(4) {
		case 0, 1:
			lim[d] = sum // exact fit of the prefix
		case 2:
			if sum > 0 {
				lim[d] = sum - 1 // the k-th transaction overshoots by one
			}
		default:
			lim[d] = sum + uint64(rng.IntN(3))
		}
	}
	return lim
}

// firstOvershoot returns the index of the first transaction whose inclusion exceeds the
// limit in some dimension (-1 = the whole list fits).
func firstOvershoot(units [][5]uint64, lim fees.Dimensions) (int, [5]uint64) {
	var sum [5]uint64
	for i, u := range units {
		for d := 0; d < 5; d++ {
			if new(big.Int).Add(bu(sum[d]), bu(u[d])).Cmp(bu(lim[d])) > 0 {
				return i, sum
			}
		}
		for d := 0; d < 5; d++ {
			sum[d] += u[d]
		}
	}
	return -1, sum
}

func partBlocks(r *kit.Run) {
	ctx := context.Background()
	rng := r.Rand("blocks")
	n := r.N(250, 2500)
	cfgPool := []int{1, 2, 4, 8}
	for ci := 0; ci < n; ci++ {
		rules := blockRules()
		w := chainfx.NewWorld(rng, 4+rng.IntN(8), 2+rng.IntN(3), rng.IntN(4) == 0, rules)
		g := chainfx.DefaultGen()
		g.PBalanceKey = 0 // sponsors must stay able to pay: the only block-level failure left is the unit limit
		fx, err := w.Fixture()
		if err != nil {
			r.T.Fatalf("harness: fixture: %v", err)
		}
		parent := fx.Genesis
		var parentView merkledb.View = fx.DB
		ts := int64(1_700_000_000_000)
		for bi, nb := 0, 1+rng.IntN(2); bi < nb; bi++ {
			ts += int64(1000 * (1 + rng.IntN(12)))
			var txs []*chain.Transaction
			var units [][5]uint64
			wit := c12BlockWitness{Part: "blocks", Case: ci, Block: bi}
			for i, nt := 0, rng.IntN(14); i < nt; i++ {
				tx, err := w.GenTx(rng, g, ts)
				if err != nil {
					r.T.Fatalf("harness: gen tx: %v", err)
				}
				u, ok := txUnitsOracle(rules, tx, fx.BalanceKey(tx.Auth.Sponsor()))
				if !ok {
					r.T.Fatalf("harness: fixture transaction overflows units")
				}
				txs = append(txs, tx)
				units = append(units, u)
				wit.Txs = append(wit.Txs, chainfx.DescribeTx(tx))
				wit.TxUnits = append(wit.TxUnits, fmt.Sprint(u))
				wit.TxBytes = append(wit.TxBytes, kit.Hex(tx.Bytes()))
			}
			lim := chooseLimits(rng, units)
			rules.MaxBlockUnits = lim // read by the chain through the rule factory at execution time
			wit.MaxUnits = u64s(lim)
			over, sum := firstOvershoot(units, lim)
			blk, err := fx.Block(parent, parentView, ts, txs)
			if err != nil {
				r.T.Fatalf("harness: block: %v", err)
			}
			cfg := chainfx.ChainCfg{Cores: cfgPool[rng.IntN(4)], Fetch: cfgPool[rng.IntN(4)], SigWorkers: rng.IntN(3)}
			wit.Cfg = fmt.Sprintf("%+v", cfg)
			var out *chain.OutputBlock
			var xerr error
			panicked := true
			r.Guard("Chain.Execute", wit, func() {
				inst, err := fx.NewChain(cfg)
				if err != nil {
					xerr = fmt.Errorf("harness: %w", err)
					panicked = false
					return
				}
				defer inst.Close()
				rb, err := fx.Reparse(blk)
				if err != nil {
					xerr = fmt.Errorf("harness: reparse: %w", err)
					panicked = false
					return
				}
				out, xerr = inst.Chain.Execute(ctx, parentView, rb, true)
				panicked = false
			})
			r.Eval()
			if panicked {
				break
			}
			if xerr != nil && strings.HasPrefix(xerr.Error(), "harness:") {
				r.T.Fatalf("%v", xerr)
			}
			nontrivial := false
			if over >= 0 {
				r.Count("blocks_over_limit", 1)
				nontrivial = true
				switch {
				case xerr == nil:
					r.Violation("C12/block-over-limit-accepted", wit, "transaction %d pushes consumption %v beyond max %v but the block verified (UnitsConsumed %v)", over, sum, lim, out.ExecutionResults.UnitsConsumed)
				case !errors.Is(xerr, chain.ErrInvalidUnitsConsumed):
					r.Violation("C12/block-over-limit-wrong-error", wit, "transaction %d pushes consumption %v beyond max %v; block failed with %v instead of ErrInvalidUnitsConsumed", over, sum, lim, xerr)
				}
				r.Distinct("blk-over|", len(txs), over, limShape(lim, sum, units[over]))
				break
			}
			r.Count("blocks_within_limit", 1)
			if xerr != nil {
				r.Violation("C12/fitting-block-rejected", wit, "sum of transaction units %v fits max %v but the block failed: %v", sum, lim, xerr)
				break
			}
			res := out.ExecutionResults
			if len(res.Results) != len(txs) {
				r.Violation("C12/block-results-count", wit, "%d results for %d transactions", len(res.Results), len(txs))
				break
			}
			var rsum [5]*big.Int
			for d := range rsum {
				rsum[d] = new(big.Int)
			}
			for i, rr := range res.Results {
				if [5]uint64(rr.Units) != units[i] {
					r.Violation("C12/result-units-mismatch", wit, "transaction %d: Result.Units %v, exact metering %v", i, rr.Units, units[i])
				}
				for d := 0; d < 5; d++ {
					rsum[d].Add(rsum[d], bu(rr.Units[d]))
				}
			}
			exact := 0
			for d := 0; d < 5; d++ {
				if rsum[d].Cmp(bu(res.UnitsConsumed[d])) != 0 {
					r.Violation("C12/block-consumption-not-sum", wit, "dimension %d: UnitsConsumed %d, sum of Result.Units %s", d, res.UnitsConsumed[d], rsum[d])
				}
				if res.UnitsConsumed[d] > lim[d] {
					r.Violation("C12/block-consumption-over-max", wit, "dimension %d: UnitsConsumed %d > max %d", d, res.UnitsConsumed[d], lim[d])
				}
				if res.UnitsConsumed[d] == lim[d] {
					exact++
				}
			}
			if exact > 0 {
				r.Count("blocks_filling_a_dimension_exactly", 1)
			}
			if len(txs) >= 2 {
				nontrivial = true
				r.Distinct("blk-fit|", len(txs), exact, res.UnitsConsumed)
			}
			_ = nontrivial
			r.Count("block_txs_executed", len(txs))
			parent, parentView = blk, out.View
			fx.Index.Put(blk)
		}
	}
}

func limShape(lim fees.Dimensions, sum, u [5]uint64) string {
	var b strings.Builder
	for d := 0; d < 5; d++ {
		s := new(big.Int).Add(bu(sum[d]), bu(u[d]))
		switch c := s.Cmp(bu(lim[d])); {
		case c > 0 && new(big.Int).Sub(s, bu(lim[d])).Cmp(bigOne) == 0:
			b.WriteString("+1")
		case c > 0:
			b.WriteString(">")
		case c == 0:
			b.WriteString("=")
		default:
			b.WriteString("<")
		}
	}
	return b.String()
}

// partBuilder: blocks *built* by the real builder from a mempool holding more than fits.
// Only properties of the returned block are judged (nothing depends on which
// transactions the builder managed to look at before its wall-clock budget ended).
func partBuilder(r *kit.Run) {
	ctx := context.Background()
	rng := r.Rand("builder")
	n := r.N(120, 1000)
	for ci := 0; ci < n; ci++ {
		rules := blockRules()
		rules.ValidityWindow = 3_600_000 // transactions expire an hour after they are generated
		w := chainfx.NewWorld(rng, 4+rng.IntN(8), 2+rng.IntN(3), false, rules)
		g := chainfx.DefaultGen()
		g.PBalanceKey = 0
		g.ExpirySlack = 60
		fx, err := w.Fixture()
		if err != nil {
			r.T.Fatalf("harness: fixture: %v", err)
		}
		now := time.Now().UnixMilli()
		var txs []*chain.Transaction
		var units [][5]uint64
		byID := map[string][5]uint64{}
		wit := c12BlockWitness{Part: "builder", Case: ci}
		for i, nt := 0, 1+rng.IntN(16); i < nt; i++ {
			tx, err := w.GenTx(rng, g, now+1_800_000) // expiry ~30..31 min ahead: valid for any plausible build instant
			if err != nil {
				r.T.Fatalf("harness: gen tx: %v", err)
			}
			u, _ := txUnitsOracle(rules, tx, fx.BalanceKey(tx.Auth.Sponsor()))
			txs = append(txs, tx)
			units = append(units, u)
			byID[tx.GetID().String()] = u
			wit.Txs = append(wit.Txs, chainfx.DescribeTx(tx))
			wit.TxUnits = append(wit.TxUnits, fmt.Sprint(u))
			wit.TxBytes = append(wit.TxBytes, kit.Hex(tx.Bytes()))
		}
		lim := chooseLimits(rng, units)
		rules.MaxBlockUnits = lim
		if rng.IntN(2) == 0 { // low target: the builder stops at the first transaction that does not fit
			rules.WindowTargetUnits = fees.Dimensions{1, 1, 1, 1, 1}
		}
		wit.MaxUnits = u64s(lim)
		cc := chain.NewDefaultConfig()
		cc.TargetBuildDuration = 5 * time.Second
		cfg := chainfx.ChainCfg{Cores: 1 + rng.IntN(4), Fetch: 1, Config: &cc}
		wit.Cfg = fmt.Sprintf("cores=%d", cfg.Cores)
		var out *chain.OutputBlock
		var blk *chain.ExecutionBlock
		var berr error
		panicked := true
		r.Guard("Chain.BuildBlock", wit, func() {
			inst, err := fx.NewChain(cfg)
			if err != nil {
				berr = fmt.Errorf("harness: %w", err)
				panicked = false
				return
			}
			defer inst.Close()
			inst.Mempool.Add(ctx, txs)
			parentOut := &chain.OutputBlock{ExecutionBlock: fx.Genesis, View: fx.DB, ExecutionResults: &chain.ExecutionResults{}}
			blk, out, berr = inst.Chain.BuildBlock(ctx, nil, parentOut)
			panicked = false
		})
		r.Eval()
		if panicked {
			continue
		}
		if berr != nil {
			if strings.HasPrefix(berr.Error(), "harness:") {
				r.T.Fatalf("%v", berr)
			}
			r.Count("builds_failed", 1) // e.g. ErrNoTxs: nothing is claimed about a block that was not built
			continue
		}
		res := out.ExecutionResults
		included := blk.StatelessBlock.Txs
		r.Count("built_blocks", 1)
		r.Count("built_txs_included", len(included))
		r.Count("built_txs_left_out", len(txs)-len(included))
		if len(res.Results) != len(included) {
			r.Violation("C12/built-block-results-count", wit, "%d results for %d included transactions", len(res.Results), len(included))
			continue
		}
		var rsum [5]*big.Int
		for d := range rsum {
			rsum[d] = new(big.Int)
		}
		for i, tx := range included {
			u, known := byID[tx.GetID().String()]
			if !known {
				r.Violation("C12/built-block-foreign-tx", wit, "built block contains a transaction that was never in the mempool: %s", tx.GetID())
				continue
			}
			if [5]uint64(res.Results[i].Units) != u {
				r.Violation("C12/result-units-mismatch", wit, "built block, transaction %s: Result.Units %v, exact metering %v", tx.GetID(), res.Results[i].Units, u)
			}
			for d := 0; d < 5; d++ {
				rsum[d].Add(rsum[d], bu(res.Results[i].Units[d]))
			}
		}
		exact := 0
		for d := 0; d < 5; d++ {
			if rsum[d].Cmp(bu(res.UnitsConsumed[d])) != 0 {
				r.Violation("C12/built-block-consumption-not-sum", wit, "dimension %d: UnitsConsumed %d, sum of the included transactions' units %s (a transaction that did not fit must leave consumption unchanged)", d, res.UnitsConsumed[d], rsum[d])
			}
			if res.UnitsConsumed[d] > lim[d] {
				r.Violation("C12/built-block-consumption-over-max", wit, "dimension %d: UnitsConsumed %d > max %d", d, res.UnitsConsumed[d], lim[d])
			}
			if res.UnitsConsumed[d] == lim[d] {
				exact++
			}
		}
		if len(included) < len(txs) && len(included) > 0 {
			r.Count("built_blocks_leaving_txs_out", 1)
			r.Distinct("built|", len(txs), len(included), exact, res.UnitsConsumed)
		}
	}
}

type c12Part struct {
	Part string `json:"part"`
}

func TestC12(t *testing.T) {
	r := kit.Start(t, "C12", "exploration")
	r.Rule("(a) Transaction.Units of transactions of 1..4 programmable actions declaring 0..4 keys each from a small pool (so keys repeat across actions and the sponsor), chunk suffixes 0..65535, sponsor keys chosen by the workload, unit costs / compute from {0,1,small,2^32,2^63,2^64-1}: compared with a math/big recomputation (overflow <=> error); every 4th transaction also after parsing from bytes. (b) sequences of 1..12 Manager.Consume calls with per-call limits at sum-1/sum/sum+1/max/random over arbitrary consumption states: all-or-nothing big-int model, named failing dimension must be one that does not fit, UnitsConsumed/LastConsumed after every call. (c) 2..4 goroutines x 2..5 Consume/UnitsConsumed/LastConsumed calls on one Manager, call/return stamped by one atomic clock, checked linearizable with porcupine against the same model (+ final read). (d) 1..2 consecutive blocks of 0..13 generated transactions executed by the real processor under block maxima placed around the prefix sums of the exact per-transaction units: over-limit <=> ErrInvalidUnitsConsumed, otherwise Result.Units = exact metering, UnitsConsumed = sum <= max. (e) blocks built by the real builder from a mempool under the same kind of maxima: UnitsConsumed = sum of included transactions' units <= max. Non-trivial: (a) >= 2 distinct declared keys; (b) sequence with both an accepted and a refused call; (c) history in which a Consume overlaps a call of another goroutine; (d) over-limit block or block of >= 2 transactions; (e) built block that left transactions out. Distinct = distinct shape under these keys.")
	r.Assume(
		"ProgAction/SpyAuth stand in for VM actions/auth; declared keys are valid (>= 2 bytes) - malformed keys are judged by C40/C05",
		"when Consume refuses, the statement does not say which dimension is reported: any dimension that does not fit is accepted",
		"(e) reads the wall clock only inside the builder; transaction expiries are 30 minutes ahead and nothing is asserted about which transactions the builder selected",
		"unit prices are the real fee manager's (judged by C13); sponsors hold balances far above any fee",
	)
	parts := "abcde"
	if rf := r.Replay(); rf != nil && len(rf.Witness) > 0 {
		var p c12Part
		_ = jsonUnmarshal(rf.Witness, &p)
		switch p.Part {
		case "units":
			var c c12UnitsCase
			if err := jsonUnmarshal(rf.Witness, &c); err == nil {
				replayUnits(r, c)
				r.Finish(0)
				return
			}
		case "consume":
			var c c12ConsumeCase
			if err := jsonUnmarshal(rf.Witness, &c); err == nil {
				runConsumeCase(r, c)
				r.Finish(0)
				return
			}
		case "concurrent":
			parts = "c" // a recorded schedule cannot be forced; re-run the part with the same seed
		case "blocks":
			parts = "d"
		case "builder":
			parts = "e"
		}
	}
	for _, p := range parts {
		switch p {
		case 'a':
			partUnits(r)
		case 'b':
			partConsume(r)
		case 'c':
			partConcurrent(r)
		case 'd':
			partBlocks(r)
		case 'e':
			partBuilder(r)
		}
	}
	if r.Replay() != nil {
		r.Finish(0)
		return
	}
	r.Finish(r.N(500, 3000))
}

func replayUnits(r *kit.Run, c c12UnitsCase) {
	raw, err := hex.DecodeString(c.Tx)
	if err != nil {
		r.T.Fatalf("replay: %v", err)
	}
	tx, err := chain.UnmarshalTx(raw, &chainfx.Parser{})
	if err != nil {
		r.T.Fatalf("replay: %v", err)
	}
	var costs unitCosts
	for i, s := range c.Costs {
		b, _ := new(big.Int).SetString(s, 10)
		if b != nil {
			costs[i] = b.Uint64()
		}
	}
	sponsor := state.Keys{}
	for _, k := range c.SponsorKeys {
		kb, _ := hex.DecodeString(k)
		sponsor[string(kb)] = state.Read | state.Write
	}
	judgeUnits(r, costs, tx, sponsor, "replay")
}
