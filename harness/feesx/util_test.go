package feesx

import (
	"encoding/hex"
	"encoding/json"
	"math/big"
	"math/rand/v2"

	"github.com/ava-labs/hypersdk/fees"
)

// ---- helpers shared by the C12/C13/C14 monitors (no code under test in here) ----

var (
	bigMaxU64 = new(big.Int).SetUint64(^uint64(0))
	bigOne    = big.NewInt(1)
)

func bu(v uint64) *big.Int { return new(big.Int).SetUint64(v) }

// satU64 clips a non-negative big integer to the uint64 range.
func satU64(v *big.Int) uint64 {
	if v.Sign() < 0 {
		return 0
	}
	if v.Cmp(bigMaxU64) > 0 {
		return ^uint64(0)
	}
	return v.Uint64()
}

func fitsU64(v *big.Int) bool { return v.Sign() >= 0 && v.Cmp(bigMaxU64) <= 0 }

// boundary-biased 64-bit pool
var edgeU64 = []uint64{
	0, 1, 2, 3, 9, 10, 11, 47, 48, 49, 100, 1000,
	1<<16 - 1, 1 << 16, 1<<31 - 1, 1 << 31, 1<<32 - 1, 1 << 32, 1<<32 + 1,
	1 << 40, 1 << 48, 1<<53 + 1, 1 << 62, 1<<63 - 1, 1 << 63, 1<<63 + 1,
	^uint64(0) - 1, ^uint64(0),
}

// anyU64 draws a boundary-biased value over the full 64-bit range.
func anyU64(rng *rand.Rand) uint64 {
	switch rng.IntN(6) {
	case 0:
		return edgeU64[rng.IntN(len(edgeU64))]
	case 1: // edge +- small
		e := edgeU64[rng.IntN(len(edgeU64))]
		d := uint64(rng.IntN(4))
		if rng.IntN(2) == 0 {
			return e + d // wrap-around is fine: still a uint64
		}
		return e - d
	case 2:
		return uint64(rng.IntN(64))
	case 3:
		return rng.Uint64()
	default: // random width
		w := 1 + rng.IntN(64)
		v := rng.Uint64()
		if w < 64 {
			v &= (1 << uint(w)) - 1
		}
		return v
	}
}

// posU64 draws a value >= 1.
func posU64(rng *rand.Rand) uint64 {
	for {
		if v := anyU64(rng); v != 0 {
			return v
		}
	}
}

func dimsOf(f func() uint64) fees.Dimensions {
	var d fees.Dimensions
	for i := range d {
		d[i] = f()
	}
	return d
}

func jsonUnmarshal(b []byte, v any) error { return json.Unmarshal(b, v) }

// u64s renders dimensions as decimal strings (JSON numbers lose precision beyond 2^53).
func u64s(d fees.Dimensions) [5]string {
	var out [5]string
	for i, v := range d {
		out[i] = new(big.Int).SetUint64(v).String()
	}
	return out
}

func parseU64s(s [5]string) fees.Dimensions {
	var d fees.Dimensions
	for i, v := range s {
		b, _ := new(big.Int).SetString(v, 10)
		if b != nil {
			d[i] = b.Uint64()
		}
	}
	return d
}

func hexDecode(s string) ([]byte, error) { return hex.DecodeString(s) }
