package feesx

import (
	"bytes"
	"encoding/binary"
	"encoding/hex"
	"fmt"
	"math/big"
	"math/bits"
	"math/rand/v2"
	"testing"

	"github.com/ava-labs/hypersdk/fees"
	ifees "github.com/ava-labs/hypersdk/internal/fees"
	"github.com/ava-labs/hypersdk/zzverif/kit"
)

// ---- C13: fee-market rule, exact big-int reference model ----

const c13Window = 10 // seconds / slots ("rolling 10-second window" in the statement)

type c13Rules struct{ min, den, target, max fees.Dimensions }

func (r c13Rules) GetMinUnitPrice() fees.Dimensions               { return r.min }
func (r c13Rules) GetUnitPriceChangeDenominator() fees.Dimensions { return r.den }
func (r c13Rules) GetWindowTargetUnits() fees.Dimensions          { return r.target }
func (r c13Rules) GetMaxBlockUnits() fees.Dimensions              { return r.max }

// feeDim / feeModel: the reference fee state (plain integers).
type feeDim struct {
	price uint64
	win   [c13Window]uint64 // win[9] = most recent second
	last  uint64
}

type feeModel struct {
	lastSec int64
	dims    [fees.FeeDimensions]feeDim
}

// encode lays the model out the way internal/fees documents its state
// ([timestamp(s)] then per dimension [price][window 10x8][lastConsumed]); only used to
// construct arbitrary *inputs*; what the manager decodes is compared through its accessors.
func (m *feeModel) encode() []byte {
	b := binary.BigEndian.AppendUint64(nil, uint64(m.lastSec))
	for _, d := range m.dims {
		b = binary.BigEndian.AppendUint64(b, d.price)
		for _, w := range d.win {
			b = binary.BigEndian.AppendUint64(b, w)
		}
		b = binary.BigEndian.AppendUint64(b, d.last)
	}
	return b
}

// c13Info classifies which regimes of the rule a judged dimension exercised.
type c13Info struct {
	Branch    string // rise | fall | equal
	EClass    string
	ProdOver  bool // price*|total-target| >= 2^64
	SumSat    bool // window sum saturated
	SlotSat   bool // slot update saturated
	Clamp1    bool // proportional amount < 1 -> 1
	SatMax    bool // next price saturated at 2^64-1
	HitZero   bool // decrease larger than the price
	FloorMin  bool // minimum price applied
	MultOver  bool // (elapsed/window) multiplier pushed the decrease beyond 64 bits
	TotalBits int
}

func eClass(e uint64) string {
	switch {
	case e < c13Window:
		return fmt.Sprintf("e=%d", e)
	case e == c13Window:
		return "e=10"
	case e < 2*c13Window:
		return "10<e<20"
	case e < 1000:
		return "e<1e3"
	case e < 1<<32:
		return "e<2^32"
	default:
		return "e>=2^32"
	}
}

// nextDim is the rule of the statement in exact arithmetic:
// roll the window by the elapsed seconds, add the last consumption into the slot of its
// second (while that second is still inside the window), total = saturating sum;
// total > target: price rises by max(1, floor(price*(total-target)/(target*denom))), saturating;
// total < target: price falls by the same amount (times floor(elapsed/window) once more than a
// whole window elapsed, the implementation's documented catch-up rule), saturating at 0;
// never below the minimum price.
func nextDim(d feeDim, target, den, minPrice, e uint64) (uint64, [c13Window]uint64, c13Info) {
	info := c13Info{EClass: eClass(e)}
	var win [c13Window]uint64
	if e < c13Window {
		for i := 0; i+int(e) < c13Window; i++ {
			win[i] = d.win[i+int(e)]
		}
		slot := c13Window - 1 - int(e)
		s := new(big.Int).Add(bu(win[slot]), bu(d.last))
		if !fitsU64(s) {
			info.SlotSat = true
		}
		win[slot] = satU64(s)
	}
	sum := new(big.Int)
	for _, w := range win {
		sum.Add(sum, bu(w))
	}
	if !fitsU64(sum) {
		info.SumSat = true
	}
	total := satU64(sum)
	info.TotalBits = bits.Len64(total)
	price := bu(d.price)
	next := new(big.Int).Set(price)
	amount := func(delta *big.Int) *big.Int {
		prod := new(big.Int).Mul(price, delta)
		if !fitsU64(prod) {
			info.ProdOver = true
		}
		q := new(big.Int).Div(prod, new(big.Int).Mul(bu(target), bu(den)))
		if q.Cmp(bigOne) < 0 {
			info.Clamp1 = true
			q.Set(bigOne)
		}
		return q
	}
	switch {
	case total > target:
		info.Branch = "rise"
		next.Add(next, amount(new(big.Int).Sub(bu(total), bu(target))))
		if !fitsU64(next) {
			info.SatMax = true
			next.Set(bigMaxU64)
		}
	case total < target:
		info.Branch = "fall"
		a := amount(new(big.Int).Sub(bu(target), bu(total)))
		if e > c13Window {
			a.Mul(a, bu(e/c13Window))
			if !fitsU64(a) {
				info.MultOver = true
			}
		}
		next.Sub(next, a)
		if next.Sign() < 0 {
			info.HitZero = true
			next.SetUint64(0)
		}
	default:
		info.Branch = "equal"
	}
	if next.Cmp(bu(minPrice)) < 0 {
		info.FloorMin = true
		next = bu(minPrice)
	}
	return next.Uint64(), win, info
}

type c13Case struct {
	Raw    string    `json:"raw"` // hex of the encoded parent fee state
	CurrMs int64     `json:"curr_ms"`
	Min    [5]string `json:"min"`
	Den    [5]string `json:"denominator"`
	Target [5]string `json:"target"`
	Note   string    `json:"note,omitempty"`
}

func (c c13Case) rules() c13Rules {
	return c13Rules{min: parseU64s(c.Min), den: parseU64s(c.Den), target: parseU64s(c.Target)}
}

func decodeModel(raw []byte) (*feeModel, bool) {
	if len(raw) != 8+fees.FeeDimensions*(8+c13Window*8+8) {
		return nil, false
	}
	m := &feeModel{lastSec: int64(binary.BigEndian.Uint64(raw))}
	o := 8
	for i := range m.dims {
		m.dims[i].price = binary.BigEndian.Uint64(raw[o:])
		o += 8
		for j := 0; j < c13Window; j++ {
			m.dims[i].win[j] = binary.BigEndian.Uint64(raw[o:])
			o += 8
		}
		m.dims[i].last = binary.BigEndian.Uint64(raw[o:])
		o += 8
	}
	return m, true
}

func mkCase(m *feeModel, currMs int64, r c13Rules, note string) c13Case {
	return c13Case{Raw: hex.EncodeToString(m.encode()), CurrMs: currMs, Min: u64s(r.min), Den: u64s(r.den), Target: u64s(r.target), Note: note}
}

// readDim reads one dimension of a real manager through its accessors.
func readDim(m *ifees.Manager, i fees.Dimension) feeDim {
	d := feeDim{price: m.UnitPrice(i), last: m.LastConsumed(i)}
	w := m.Window(i)
	for j := 0; j < c13Window; j++ {
		d.win[j] = binary.BigEndian.Uint64(w[8*j:])
	}
	return d
}

// judgeStep runs the real ComputeNext on the encoded model state and compares every
// dimension with the exact rule. It returns the real successor (nil after a panic).
func judgeStep(r *kit.Run, m *feeModel, currMs int64, rules c13Rules, note string) *ifees.Manager {
	c := mkCase(m, currMs, rules, note)
	r.Eval()
	var real, next *ifees.Manager
	r.Guard("NewManager", c, func() { real = ifees.NewManager(m.encode()) })
	if real == nil {
		return nil
	}
	// the encoded state must decode to the same prices, window and consumption
	for i := fees.Dimension(0); i < fees.FeeDimensions; i++ {
		if got := readDim(real, i); got != m.dims[i] {
			r.Violation("C13/decode-mismatch", c, "dimension %d: encoded state (price %d, window %v, consumed %d) decodes to (price %d, window %v, consumed %d)", i, m.dims[i].price, m.dims[i].win, m.dims[i].last, got.price, got.win, got.last)
		}
	}
	r.Guard("ComputeNext", c, func() { next = real.ComputeNext(currMs, rules) })
	if next == nil {
		return nil
	}
	e := uint64(currMs/1000 - m.lastSec)
	for i := fees.Dimension(0); i < fees.FeeDimensions; i++ {
		d := m.dims[i]
		want, wantWin, info := nextDim(d, rules.target[i], rules.den[i], rules.min[i], e)
		got := readDim(next, i)
		r.Count("dimension_judgements", 1)
		r.Count("branch_"+info.Branch, 1)
		for name, on := range map[string]bool{"product_beyond_64_bits": info.ProdOver, "window_sum_saturated": info.SumSat, "window_slot_saturated": info.SlotSat,
			"amount_clamped_to_1": info.Clamp1, "price_saturated_max": info.SatMax, "decrease_exceeds_price": info.HitZero, "min_price_floor_applied": info.FloorMin,
			"elapsed_multiplier_beyond_64_bits": info.MultOver, "elapsed_ge_window": e >= c13Window} {
			if on {
				r.Count(name, 1)
			}
		}
		if info.Branch != "equal" {
			r.Distinct(info, bits.Len64(d.price), bits.Len64(rules.target[i]), bits.Len64(rules.den[i]), bits.Len64(rules.min[i]) > bits.Len64(d.price))
		}
		desc := fmt.Sprintf("dimension %d: price %d, window %v + last consumed %d, elapsed %d s, target %d, denominator %d, min %d", i, d.price, d.win, d.last, e, rules.target[i], rules.den[i], rules.min[i])
		switch {
		case got.price < rules.min[i]:
			r.Violation("C13/below-min-price", c, "%s: next price %d is below the minimum", desc, got.price)
		case info.Branch == "rise" && got.price <= d.price && d.price != ^uint64(0) && !(got.price == rules.min[i] && info.FloorMin):
			r.Violation("C13/no-rise-above-target", c, "%s: window usage above target but next price %d does not rise (exact rule: %d)", desc, got.price, want)
		case info.Branch == "fall" && got.price >= d.price && d.price != 0 && !(got.price == rules.min[i] && info.FloorMin):
			r.Violation("C13/no-fall-below-target", c, "%s: window usage below target but next price %d does not fall (exact rule: %d)", desc, got.price, want)
		case got.price != want && info.Branch == "rise":
			r.Violation("C13/rise-not-exact", c, "%s: next price %d, exact rule gives %d", desc, got.price, want)
		case got.price != want && info.Branch == "fall" && e > c13Window:
			r.Violation("C13/fall-not-exact-after-idle-windows", c, "%s: next price %d, exact rule gives %d", desc, got.price, want)
		case got.price != want && info.Branch == "fall":
			r.Violation("C13/fall-not-exact", c, "%s: next price %d, exact rule gives %d", desc, got.price, want)
		case got.price != want:
			r.Violation("C13/changed-at-target", c, "%s: usage equals target but price moved to %d (want %d)", desc, got.price, want)
		}
		if got.win != wantWin {
			r.Violation("C13/window-mismatch", c, "%s: next window %v, rolling-window model %v", desc, got.win, wantWin)
		}
	}
	// encoded successor decodes to the same prices, window and consumption
	var enc []byte
	r.Guard("Bytes", c, func() { enc = append([]byte(nil), next.Bytes()...) })
	var back *ifees.Manager
	r.Guard("NewManager(Bytes)", c, func() { back = ifees.NewManager(append([]byte(nil), enc...)) })
	if back != nil {
		r.Count("roundtrips", 1)
		for i := fees.Dimension(0); i < fees.FeeDimensions; i++ {
			if a, b := readDim(next, i), readDim(back, i); a != b {
				r.Violation("C13/roundtrip-mismatch", c, "dimension %d: successor (price %d, window %v, consumed %d) re-decodes to (price %d, window %v, consumed %d)", i, a.price, a.win, a.last, b.price, b.win, b.last)
			}
		}
		if back.UnitPrices() != next.UnitPrices() || back.UnitsConsumed() != next.UnitsConsumed() {
			r.Violation("C13/roundtrip-mismatch", c, "UnitPrices/UnitsConsumed differ after Bytes -> NewManager: %v/%v vs %v/%v", next.UnitPrices(), next.UnitsConsumed(), back.UnitPrices(), back.UnitsConsumed())
		}
		if !bytes.Equal(back.Bytes(), enc) {
			r.Violation("C13/roundtrip-mismatch", c, "Bytes() of the re-decoded manager differ from the bytes it was decoded from")
		}
	}
	return next
}

// judgePair: two parent states differing only in usage (hi >= lo slot-wise); the higher
// usage must not yield a lower next price. Judged on real outputs only.
func judgePair(r *kit.Run, lo, hi *feeModel, curr int64, rules c13Rules) {
	e := uint64(curr/1000 - lo.lastSec)
	r.Eval()
	var nlo, nhi *ifees.Manager
	cl, ch := mkCase(lo, curr, rules, "monotone-lo"), mkCase(hi, curr, rules, "monotone-hi")
	r.Guard("ComputeNext", cl, func() { nlo = ifees.NewManager(lo.encode()).ComputeNext(curr, rules) })
	r.Guard("ComputeNext", ch, func() { nhi = ifees.NewManager(hi.encode()).ComputeNext(curr, rules) })
	if nlo == nil || nhi == nil {
		return
	}
	r.Count("monotone_pairs", 1)
	for d := fees.Dimension(0); d < fees.FeeDimensions; d++ {
		pl, ph := nlo.UnitPrice(d), nhi.UnitPrice(d)
		if ph < pl {
			r.Violation("C13/not-monotone-in-usage", map[string]any{"lower_usage": cl, "higher_usage": ch, "dimension": d},
				"dimension %d: price %d, target %d, denominator %d, elapsed %d s: usage (window %v + %d) -> next price %d but higher usage (window %v + %d) -> lower next price %d",
				d, lo.dims[d].price, rules.target[d], rules.den[d], e, lo.dims[d].win, lo.dims[d].last, pl, hi.dims[d].win, hi.dims[d].last, ph)
		}
		if ph != pl {
			r.Count("monotone_pairs_price_differs", 1)
		}
	}
}

var c13Elapsed = []uint64{0, 0, 1, 1, 2, 3, 4, 5, 6, 7, 8, 9, 9, 10, 10, 11, 11, 12, 19, 20, 21, 29, 30, 99, 100, 101, 3600, 86400, 1_000_000_000, 1 << 40, 1 << 52}

func genWindow(rng *rand.Rand, target uint64) (w [c13Window]uint64, last uint64) {
	switch rng.IntN(8) {
	case 0: // empty window, usage near the target
		last = target + uint64(rng.IntN(5)) - 2
	case 1: // spread around target/10
		for i := range w {
			w[i] = target/10 + uint64(rng.IntN(3))
		}
		last = uint64(rng.IntN(4))
	case 2: // small
		for i := range w {
			w[i] = uint64(rng.IntN(100))
		}
		last = uint64(rng.IntN(1000))
	case 3: // saturating
		for i := range w {
			if rng.IntN(3) == 0 {
				w[i] = ^uint64(0) - uint64(rng.IntN(3))
			}
		}
		last = anyU64(rng)
	case 4: // sparse
		w[rng.IntN(c13Window)] = anyU64(rng)
		last = anyU64(rng)
	case 5:
		last = anyU64(rng)
	default:
		for i := range w {
			w[i] = anyU64(rng)
			if rng.IntN(2) == 0 {
				w[i] >>= uint(rng.IntN(64))
			}
		}
		last = anyU64(rng)
	}
	return w, last
}

func genModel(rng *rand.Rand, rules c13Rules) *feeModel {
	m := &feeModel{}
	switch rng.IntN(4) {
	case 0:
		m.lastSec = 0
	case 1:
		m.lastSec = 1_700_000_000 + int64(rng.IntN(1000))
	default:
		m.lastSec = int64(rng.Uint64() >> uint(12+rng.IntN(50)))
	}
	for i := range m.dims {
		m.dims[i].price = anyU64(rng)
		m.dims[i].win, m.dims[i].last = genWindow(rng, rules.target[i])
	}
	return m
}

func genRules(rng *rand.Rand) c13Rules {
	r := c13Rules{}
	for i := 0; i < fees.FeeDimensions; i++ {
		r.target[i] = posU64(rng)
		r.den[i] = posU64(rng)
		if rng.IntN(2) == 0 {
			r.den[i] = 1 + uint64(rng.IntN(64))
		}
		r.min[i] = anyU64(rng)
		if rng.IntN(2) == 0 {
			r.min[i] = uint64(rng.IntN(200))
		}
		r.max[i] = ^uint64(0)
	}
	return r
}

func pickCurr(rng *rand.Rand, lastSec int64) int64 {
	const maxSec = int64(^uint64(0)>>1) / 1000
	if rng.IntN(12) == 0 {
		// a clock slightly (or far) behind the stored second (skew within the future bound is
		// legal): the elapsed time wraps around as an unsigned number, i.e. is >= 2^63
		back := []int64{1, 1, 2, 5, 9, 10, 11, 1000, 1 << 40, 1 << 61}[rng.IntN(10)]
		if lastSec-back >= 0 {
			return (lastSec - back) * 1000
		}
	}
	e := c13Elapsed[rng.IntN(len(c13Elapsed))]
	if rng.IntN(8) == 0 {
		e = rng.Uint64() >> uint(12+rng.IntN(50))
	}
	sec := lastSec + int64(e)
	if sec < lastSec || sec > maxSec {
		sec = lastSec + int64(rng.IntN(12))
	}
	if sec > maxSec {
		sec = maxSec
	}
	return sec*1000 + int64(rng.IntN(1000))
}

func TestC13(t *testing.T) {
	r := kit.Start(t, "C13", "exploration")
	r.Rule("(1) single steps: arbitrary encoded parent fee state (boundary-biased 64-bit prices, window slots, last consumption, stored second) x rules (target, denominator >= 1, minimum) x elapsed seconds (0..9, 10, 11.., idle for many windows); the real Manager.ComputeNext successor (price and window of all 5 dimensions) is compared with the rule of the statement evaluated in math/big; (2) monotonicity: pairs of parent states differing only in usage (last consumption / one in-window slot raised) must not yield a lower price for the higher usage (judged on real outputs only); (3) block sequences from the genesis state: ComputeNext -> Consume random units -> Bytes -> NewManager, model tracked independently over 5..40 blocks; every successor is re-decoded from its bytes. A judged dimension is non-trivial when usage != target; distinct = distinct (regime flags: product beyond 64 bits / saturations / clamps / elapsed class, bit widths of price, total, target, denominator).")
	r.Assume(
		"target = 0 or change denominator = 0 divide by zero in the rule itself: treated as invalid configuration, not generated",
		"timestamps are non-negative; a current time before the stored second is evaluated as the implementation documents it: the unsigned difference (>= 2^63 seconds, i.e. every window slot has rolled out)",
		"the statement is silent about idle periods longer than one window; the implementation's documented catch-up rule (decrease multiplied by floor(elapsed/window)) is taken as the rule and evaluated exactly",
		"the arbitrary input states of part (1) are laid out as documented in internal/fees/manager.go; what the manager decodes from them is checked through its accessors",
	)
	if rf := r.Replay(); rf != nil && len(rf.Witness) > 0 {
		var pair struct {
			Lo c13Case `json:"lower_usage"`
			Hi c13Case `json:"higher_usage"`
		}
		if err := jsonUnmarshal(rf.Witness, &pair); err == nil && pair.Lo.Raw != "" && pair.Hi.Raw != "" {
			lraw, _ := hex.DecodeString(pair.Lo.Raw)
			hraw, _ := hex.DecodeString(pair.Hi.Raw)
			lo, ok1 := decodeModel(lraw)
			hi, ok2 := decodeModel(hraw)
			if ok1 && ok2 {
				judgePair(r, lo, hi, pair.Lo.CurrMs, pair.Lo.rules())
				r.Finish(0)
				return
			}
		}
		var c c13Case
		if err := jsonUnmarshal(rf.Witness, &c); err == nil {
			if raw, err := hex.DecodeString(c.Raw); err == nil {
				if m, ok := decodeModel(raw); ok {
					judgeStep(r, m, c.CurrMs, c.rules(), "replay")
					r.Finish(0)
					return
				}
			}
		}
	}

	// (1) single steps over the full range
	rng := r.Rand("single")
	n := r.N(200000, 1500000)
	for i := 0; i < n; i++ {
		rules := genRules(rng)
		m := genModel(rng, rules)
		curr := pickCurr(rng, m.lastSec)
		if i == 0 { // the design-phase probe, kept as a fixed first case
			rules = c13Rules{min: fees.Dimensions{1, 1, 1, 1, 1}, den: fees.Dimensions{2, 2, 2, 2, 2}, target: fees.Dimensions{10, 10, 10, 10, 10}}
			m = &feeModel{}
			m.dims[0].price, m.dims[0].last = 1<<40, 1<<30
			m.dims[1].price, m.dims[1].last = 1<<40, 1<<20
			curr = 1000
		}
		next := judgeStep(r, m, curr, rules, "")
		if i < 3 {
			r.Sample(mkCase(m, curr, rules, ""))
		}
		_ = next
	}

	// (2) monotone in usage
	rng = r.Rand("monotone")
	n = r.N(150000, 1000000)
	for i := 0; i < n; i++ {
		rules := genRules(rng)
		lo := genModel(rng, rules)
		e := uint64(rng.IntN(c13Window)) // inside the window, otherwise usage is irrelevant
		curr := (lo.lastSec+int64(e))*1000 + int64(rng.IntN(1000))
		if curr/1000 != lo.lastSec+int64(e) || curr < 0 {
			lo.lastSec = 1_700_000_000
			curr = (lo.lastSec+int64(e))*1000 + int64(rng.IntN(1000))
		}
		hi := *lo
		raised := false
		for d := range hi.dims {
			hi.dims[d].price = lo.dims[d].price
			if rng.IntN(2) == 0 { // raise the last consumption
				room := ^uint64(0) - lo.dims[d].last
				if room > 0 {
					inc := 1 + anyU64(rng)%room
					hi.dims[d].last = lo.dims[d].last + inc
					raised = true
				}
			} else { // raise a slot that is still inside the window after the roll
				s := int(e) + rng.IntN(c13Window-int(e))
				room := ^uint64(0) - lo.dims[d].win[s]
				if room > 0 {
					inc := 1 + anyU64(rng)%room
					hi.dims[d].win[s] = lo.dims[d].win[s] + inc
					raised = true
				}
			}
		}
		if !raised {
			continue
		}
		judgePair(r, lo, &hi, curr, rules)
	}

	// (3) block sequences from the genesis fee state
	rng = r.Rand("sequences")
	n = r.N(6000, 60000)
	for i := 0; i < n; i++ {
		rules := genRules(rng)
		if rng.IntN(2) == 0 { // realistic magnitudes
			for d := range rules.target {
				rules.target[d] = 1 + uint64(rng.IntN(1_000_000))
				rules.den[d] = 1 + uint64(rng.IntN(64))
				rules.min[d] = uint64(rng.IntN(200))
			}
		}
		model := &feeModel{}
		tms := int64(1_700_000_000_000) + int64(rng.IntN(1000))
		if rng.IntN(4) == 0 {
			tms = int64(rng.IntN(20_000))
		}
		steps := 5 + rng.IntN(36)
		for s := 0; s < steps; s++ {
			next := judgeStep(r, model, tms, rules, fmt.Sprintf("sequence %d step %d", i, s))
			if next == nil {
				break
			}
			// follow the real successor only through its observable values
			nm := &feeModel{lastSec: tms / 1000}
			for d := fees.Dimension(0); d < fees.FeeDimensions; d++ {
				nm.dims[d] = readDim(next, d)
			}
			// the block consumes units
			var units fees.Dimensions
			for d := range units {
				switch rng.IntN(5) {
				case 0:
				case 1:
					units[d] = anyU64(rng)
				default:
					units[d] = uint64(rng.Int64N(int64(rules.target[d]%(1<<40))/3 + 2))
				}
			}
			var ok bool
			r.Guard("Consume", mkCase(nm, tms, rules, "consume"), func() { ok, _ = next.Consume(units, rules.max) })
			if ok {
				for d := range units {
					nm.dims[d].last += units[d]
				}
			}
			for d := fees.Dimension(0); d < fees.FeeDimensions; d++ {
				if got := next.LastConsumed(d); got != nm.dims[d].last {
					r.Violation("C13/consumption-not-recorded", mkCase(nm, tms, rules, "consume"), "dimension %d: consumption %d after Consume(%v) ok=%v, want %d", d, got, units, ok, nm.dims[d].last)
					nm.dims[d].last = got
				}
			}
			model = nm
			r.Count("sequence_steps", 1)
			gap := int64(rng.IntN(3000))
			switch rng.IntN(6) {
			case 0:
				gap = int64(rng.IntN(200))
			case 1:
				gap = int64(9000 + rng.IntN(3000))
			case 2:
				gap = int64(rng.IntN(60_000))
			}
			tms += gap
		}
	}
	r.Finish(r.N(300, 1000))
}
