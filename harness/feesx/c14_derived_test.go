package feesx

import (
	"encoding/binary"
	"errors"
	"fmt"
	"math/rand/v2"
	"strings"

	"github.com/ava-labs/avalanchego/ids"

	"github.com/ava-labs/hypersdk/chain"
	"github.com/ava-labs/hypersdk/codec"
	"github.com/ava-labs/hypersdk/keys"
	"github.com/ava-labs/hypersdk/state"
	"github.com/ava-labs/hypersdk/zzverif/chainfx"
)

// ---- C14 helper: actions whose declared keys are derived from their action ID / the actor ----
//
// "create asset" / "mint" style actions store the new object under a key derived from their own
// action ID, account-style actions under a key derived from the actor. The key NAME therefore
// differs between estimation (placeholder action IDs, factory address) and the signed transaction
// (IDs derived from the transaction ID, auth actor); the chunk suffix and the permissions of a
// declaration never depend on either.

const (
	c14DerivedActionID uint8 = 0xF2

	c14ByActionID      byte = 1 // key = prefix ‖ actionID ‖ chunks
	c14ByActor         byte = 2 // key = prefix ‖ actor ‖ chunks
	c14ByActorActionID byte = 3 // key = prefix ‖ actor ‖ actionID ‖ chunks
)

type c14DerivedKey struct {
	Mode   byte
	Perm   state.Permissions
	Chunks uint16
	Prefix []byte // starts with 0xD0|mode and is >= 2 bytes: never equal to a fixed (<= 4 byte) or a balance key
}

func (d c14DerivedKey) key(actor codec.Address, actionID ids.ID) string {
	k := append([]byte(nil), d.Prefix...)
	if d.Mode == c14ByActor || d.Mode == c14ByActorActionID {
		k = append(k, actor[:]...)
	}
	if d.Mode == c14ByActionID || d.Mode == c14ByActorActionID {
		k = append(k, actionID[:]...)
	}
	return string(keys.EncodeChunks(k, d.Chunks))
}

func (d c14DerivedKey) template() string {
	return fmt.Sprintf("%d/%x/%d", d.Mode, d.Prefix, d.Chunks)
}

// c14DerivedAction is a programmable action (fixed declared keys, compute, padding) that
// additionally declares derived keys.
type c14DerivedAction struct {
	*chainfx.ProgAction
	Derived []c14DerivedKey
}

var _ chain.Action = (*c14DerivedAction)(nil)

func (*c14DerivedAction) GetTypeID() uint8 { return c14DerivedActionID }

func (a *c14DerivedAction) StateKeys(actor codec.Address, actionID ids.ID) state.Keys {
	ks := a.ProgAction.StateKeys(actor, actionID)
	for _, d := range a.Derived {
		ks[d.key(actor, actionID)] |= d.Perm
	}
	return ks
}

func (a *c14DerivedAction) Bytes() []byte {
	b := []byte{c14DerivedActionID, byte(len(a.Derived))}
	for _, d := range a.Derived {
		b = append(b, d.Mode, byte(d.Perm))
		b = binary.BigEndian.AppendUint16(b, d.Chunks)
		b = append(b, byte(len(d.Prefix)))
		b = append(b, d.Prefix...)
	}
	return append(b, a.ProgAction.Bytes()...)
}

func parseC14Derived(b []byte) (*c14DerivedAction, error) {
	bad := errors.New("c14 derived action: malformed")
	if len(b) < 2 || b[0] != c14DerivedActionID {
		return nil, bad
	}
	n := int(b[1])
	b = b[2:]
	a := &c14DerivedAction{}
	for i := 0; i < n; i++ {
		if len(b) < 5 || len(b) < 5+int(b[4]) {
			return nil, bad
		}
		d := c14DerivedKey{Mode: b[0], Perm: state.Permissions(b[1]), Chunks: binary.BigEndian.Uint16(b[2:4])}
		if d.Mode < c14ByActionID || d.Mode > c14ByActorActionID {
			return nil, bad
		}
		d.Prefix = append([]byte(nil), b[5:5+int(b[4])]...)
		b = b[5+int(b[4]):]
		a.Derived = append(a.Derived, d)
	}
	p, err := chainfx.ParseProg(b)
	if err != nil {
		return nil, err
	}
	a.ProgAction = p
	return a, nil
}

func genC14DerivedTemplates(rng *rand.Rand) []c14DerivedKey {
	pool := make([]c14DerivedKey, 1+rng.IntN(3))
	chunkPool := []uint16{0, 1, 1, 2, 3, 16, 1024, 65535}
	for j := range pool {
		mode := c14ByActionID
		switch rng.IntN(5) {
		case 0:
			mode = c14ByActor
		case 1:
			mode = c14ByActorActionID
		}
		d := c14DerivedKey{Mode: mode, Perm: state.Permissions(1 + rng.IntN(7)), Chunks: chunkPool[rng.IntN(len(chunkPool))]}
		d.Prefix = append([]byte{0xD0 | mode}, seedBytes(rng, 1+rng.IntN(6))...)
		if j > 0 && rng.IntN(3) == 0 { // same name, other chunk suffix: a different key
			d.Mode, d.Prefix = pool[0].Mode, pool[0].Prefix
		}
		pool[j] = d
	}
	return pool
}

func genC14Derived(rng *rand.Rand, nonce uint64, size int, keyPool [][]byte, templates []c14DerivedKey) *c14DerivedAction {
	a := &c14DerivedAction{ProgAction: genProgOfSize(rng, nonce, size, keyPool)}
	if rng.IntN(3) == 0 {
		a.ProgAction.Keys = nil // nothing but derived keys (create-asset style)
	}
	a.Derived = append(a.Derived, templates[0]) // the template every derived action of the case shares
	for k, nk := 0, rng.IntN(3); k < nk; k++ {
		t := templates[rng.IntN(len(templates))]
		if rng.IntN(4) == 0 {
			t.Perm = state.Permissions(1 + rng.IntN(7)) // the same key declared with other permissions
		}
		a.Derived = append(a.Derived, t)
	}
	return a
}

// c14DerivedStats describes the derived declarations of a case from the harness' own action
// descriptions and counts, in the key set of the signed transaction, how many distinct keys the
// action-ID templates produced.
type c14DerivedStats struct {
	actions      int  // actions with derived keys
	modes        byte // bitmask of modes used
	sharedByID   int  // largest number of actions declaring one action-ID-derived template
	sharedByActr int  // largest number of actions declaring one actor-derived template
}

func c14DerivedOf(acts []chain.Action) c14DerivedStats {
	var s c14DerivedStats
	byID, byActor := map[string]int{}, map[string]int{}
	for _, act := range acts {
		d, ok := act.(*c14DerivedAction)
		if !ok {
			continue
		}
		s.actions++
		seen := map[string]bool{}
		for _, k := range d.Derived {
			s.modes |= 1 << k.Mode
			t := k.template()
			if seen[t] {
				continue
			}
			seen[t] = true
			if k.Mode == c14ByActor {
				byActor[t]++
			} else {
				byID[t]++
			}
		}
	}
	for _, n := range byID {
		s.sharedByID = max(s.sharedByID, n)
	}
	for _, n := range byActor {
		s.sharedByActr = max(s.sharedByActr, n)
	}
	return s
}

func bucket(n int) string {
	switch {
	case n <= 3:
		return fmt.Sprint(n)
	case n <= 8:
		return "4-8"
	case n <= 32:
		return "9-32"
	}
	return "33+"
}

func (s c14DerivedStats) shape() string {
	return fmt.Sprintf("|drv=%s/m%d/id%s/ac%s", bucket(s.actions), s.modes, bucket(s.sharedByID), bucket(s.sharedByActr))
}

// countKeysOfTemplate counts the keys of the signed transaction that the declaration d produced
// (same prefix, length and chunk suffix).
func countKeysOfTemplate(ks state.Keys, d c14DerivedKey) int {
	want := len(d.key(codec.Address{}, ids.Empty))
	suffix := string(keys.EncodeChunks(nil, d.Chunks))
	n := 0
	for k := range ks {
		if len(k) == want && strings.HasPrefix(k, string(d.Prefix)) && strings.HasSuffix(k, suffix) {
			n++
		}
	}
	return n
}
