package feesx

import (
	"encoding/json"
	"fmt"
	"math/big"
	"math/rand/v2"
	"sync"
	"testing"

	"github.com/ava-labs/avalanchego/ids"

	"github.com/ava-labs/hypersdk/auth"
	"github.com/ava-labs/hypersdk/chain"
	"github.com/ava-labs/hypersdk/codec"
	"github.com/ava-labs/hypersdk/crypto/bls"
	"github.com/ava-labs/hypersdk/crypto/secp256r1"
	"github.com/ava-labs/hypersdk/examples/morpheusvm/actions"
	"github.com/ava-labs/hypersdk/examples/morpheusvm/storage"
	"github.com/ava-labs/hypersdk/fees"
	"github.com/ava-labs/hypersdk/genesis"
	"github.com/ava-labs/hypersdk/keys"
	"github.com/ava-labs/hypersdk/state"
	"github.com/ava-labs/hypersdk/state/balance"
	"github.com/ava-labs/hypersdk/zzverif/chainfx"
	"github.com/ava-labs/hypersdk/zzverif/kit"
)

// ---- C14: EstimateUnits / GenerateTransaction budget >= what the signed tx consumes ----

type c14Action struct {
	Kind  string `json:"kind"` // transfer | prog | derived (c14DerivedAction: prog + keys derived from action ID / actor)
	Bytes string `json:"bytes"`
}

type c14Case struct {
	ChainID        string      `json:"chain_id"`
	Timestamp      int64       `json:"timestamp"`
	ValidityWindow int64       `json:"validity_window"`
	MaxActions     uint8       `json:"max_actions_per_tx"`
	Costs          [7]string   `json:"costs"`
	Prices         [5]string   `json:"prices"`
	Auth           string      `json:"auth"`
	AuthSeed       string      `json:"auth_seed"`
	SpyPad         int         `json:"spy_pad,omitempty"`
	BH             string      `json:"balance_handler"`
	Actions        []c14Action `json:"actions"`
}

var c14MinSlack = int64(1 << 62) // smallest (estimate - actual) bandwidth seen

var dimNames = [5]string{"bandwidth", "compute", "storage-read", "storage-allocate", "storage-write"}

func seedBytes(rng *rand.Rand, n int) []byte {
	b := make([]byte, n)
	for i := range b {
		b[i] = byte(rng.UintN(256))
	}
	return b
}

// factoryFor builds the auth factory of a case deterministically from its seed.
func factoryFor(kind string, seed []byte, pad int) (chain.AuthFactory, error) {
	switch kind {
	case "ed25519":
		return auth.NewED25519Factory(chainfx.Ed25519Key(rand.New(rand.NewPCG(uint64(seed[0])|uint64(seed[1])<<8|uint64(seed[2])<<16, uint64(seed[3])+7)))), nil
	case "secp256r1":
		var k secp256r1.PrivateKey
		copy(k[:], seed)
		k[0] &= 0x7f // below the group order
		k[31] |= 1   // non-zero
		return auth.NewSECP256R1Factory(k), nil
	case "bls":
		s := append([]byte(nil), seed[:32]...)
		s[0] &= 0x3f // below the scalar field order
		s[31] |= 1
		priv, err := bls.PrivateKeyFromBytes(s)
		if err != nil {
			return nil, err
		}
		return auth.NewBLSFactory(priv), nil
	default:
		a := chainfx.SpyAddr(int(seed[0]))
		return &chainfx.SpyFactory{Auth: chainfx.SpyAuth{ActorAddr: a, SponsorAddr: a, Compute: uint64(seed[1]), Start: -1, End: -1, OK: true, Pad: make([]byte, pad)}}, nil
	}
}

func (c c14Case) build() (*genesis.Rules, fees.Dimensions, []chain.Action, chain.AuthFactory, chain.BalanceHandler, error) {
	rules := genesis.NewDefaultRules()
	var costs unitCosts
	for i, s := range c.Costs {
		b, _ := new(big.Int).SetString(s, 10)
		if b != nil {
			costs[i] = b.Uint64()
		}
	}
	costs.apply(rules)
	cid, err := ids.FromString(c.ChainID)
	if err != nil {
		return nil, fees.Dimensions{}, nil, nil, nil, err
	}
	rules.ChainID = cid
	rules.ValidityWindow = c.ValidityWindow
	rules.MaxActionsPerTx = c.MaxActions
	var acts []chain.Action
	parser := &chainfx.Parser{}
	for _, a := range c.Actions {
		raw, err := hexDecode(a.Bytes)
		if err != nil {
			return nil, fees.Dimensions{}, nil, nil, nil, err
		}
		var act chain.Action
		if a.Kind == "transfer" {
			act, err = actions.UnmarshalTransfer(raw)
		} else if a.Kind == "derived" {
			act, err = parseC14Derived(raw)
		} else {
			act, err = parser.ParseAction(raw)
		}
		if err != nil {
			return nil, fees.Dimensions{}, nil, nil, nil, err
		}
		acts = append(acts, act)
	}
	seed, err := hexDecode(c.AuthSeed)
	if err != nil || len(seed) < 32 {
		return nil, fees.Dimensions{}, nil, nil, nil, fmt.Errorf("bad auth seed")
	}
	f, err := factoryFor(c.Auth, seed, c.SpyPad)
	if err != nil {
		return nil, fees.Dimensions{}, nil, nil, nil, err
	}
	var bh chain.BalanceHandler = balance.NewPrefixBalanceHandler([]byte{0})
	if c.BH == "morpheusvm" {
		bh = &storage.BalanceHandler{}
	}
	return rules, parseU64s(c.Prices), acts, f, bh, nil
}

func varintLen(n int) int {
	l := 1
	for n >= 128 {
		n >>= 7
		l++
	}
	return l
}

// judgeC14 generates the transaction with the real GenerateTransaction and compares the
// estimate with what the signed transaction consumes.
func judgeC14(r *kit.Run, c c14Case) (shape string, nontrivial bool) {
	rules, prices, acts, factory, bh, err := c.build()
	if err != nil {
		r.T.Fatalf("harness: cannot build case: %v", err)
	}
	r.Eval()
	var (
		tx      *chain.Transaction
		est     fees.Dimensions
		gerr    error
		eerr    error
		units   fees.Dimensions
		uerr    error
		paniced = true
	)
	r.Guard("GenerateTransaction", c, func() {
		tx, gerr = chain.GenerateTransaction(&genesis.ImmutableRuleFactory{Rules: rules}, prices, c.Timestamp, acts, factory)
		est, eerr = chain.EstimateUnits(rules, acts, factory)
		if gerr == nil {
			units, uerr = tx.Units(bh, rules)
		}
		paniced = false
	})
	if paniced {
		return "", false
	}
	if gerr != nil || eerr != nil {
		r.Count("generation_refused_estimate_or_fee_overflow", 1) // no transaction was generated: nothing to budget
		return "", false
	}
	if uerr != nil {
		r.Count("signed_tx_units_error", 1)
		return "", false
	}
	r.Count("transactions_generated", 1)
	pfx := [4]int{}
	overhead := 0
	for _, a := range acts {
		l := varintLen(len(a.Bytes()))
		pfx[l]++
		overhead += 1 + l
	}
	authLen := len(tx.Auth.Bytes())
	overhead += 1 + varintLen(authLen)
	desc := fmt.Sprintf("%d actions (length prefixes 1/2/3 bytes: %d/%d/%d), auth %s of %d bytes, signed size %d, field tag+length overhead %d bytes", len(acts), pfx[1], pfx[2], pfx[3], c.Auth, authLen, tx.Size(), overhead)
	for d := 0; d < 5; d++ {
		if est[d] < units[d] {
			r.Violation("C14/estimate-below-actual/"+dimNames[d], c, "EstimateUnits[%s] = %d < %d consumed by the signed transaction; %s", dimNames[d], est[d], units[d], desc)
		}
	}
	fee := new(big.Int)
	for d := 0; d < 5; d++ {
		fee.Add(fee, new(big.Int).Mul(bu(prices[d]), bu(units[d])))
	}
	if bu(tx.Base.MaxFee).Cmp(fee) < 0 {
		r.Violation("C14/max-fee-below-fee", c, "GenerateTransaction set MaxFee %d but the transaction's fee at the same unit prices %v is %s (units %v, estimate %v); %s", tx.Base.MaxFee, prices, fee, units, est, desc)
	}
	slack := int64(est[0]) - int64(units[0])
	if slack < c14MinSlack {
		c14MinSlack = slack
	}
	if slack < 8 {
		r.Count("cases_with_bandwidth_slack_below_8", 1)
	}
	shape = fmt.Sprintf("n=%d|%d/%d/%d|%s:%d|cid0=%v|tsbytes=%d|fee0=%v", len(acts), pfx[1], pfx[2], pfx[3], c.Auth, varintLen(authLen), rules.ChainID == ids.Empty, varintLen64(tx.Base.Timestamp), tx.Base.MaxFee == 0)
	if ds := c14DerivedOf(acts); ds.actions > 0 {
		// what the monitor saw of the derived declarations, from the key set of the signed transaction
		r.Count("transactions_with_derived_key_actions/"+c.Auth, 1)
		signedKeys, _ := tx.StateKeys(bh)
		for _, act := range acts {
			if d, ok := act.(*c14DerivedAction); ok {
				first := d.Derived[0] // the template every derived action of a generated case shares
				if got := countKeysOfTemplate(signedKeys, first); first.Mode != c14ByActor && ds.sharedByID >= 2 && got >= 2 {
					r.Count("signed_txs_where_one_action_id_template_named_2+_distinct_keys", 1)
				}
				break
			}
		}
		if ds.sharedByActr >= 2 {
			r.Count("signed_txs_with_2+_actions_declaring_one_actor_derived_key", 1)
		}
		shape += ds.shape()
	}
	return shape, len(acts) >= 2 || pfx[2]+pfx[3] > 0
}

func c14Kinds(c c14Case) map[string]int {
	m := map[string]int{}
	for _, a := range c.Actions {
		m[a.Kind]++
	}
	return m
}

func varintLen64(v int64) int {
	u := uint64(v)
	l := 1
	for u >= 128 {
		u >>= 7
		l++
	}
	return l
}

func genProgOfSize(rng *rand.Rand, nonce uint64, size int, keyPool [][]byte) *chainfx.ProgAction {
	a := &chainfx.ProgAction{Nonce: nonce, Compute: uint64(rng.IntN(10)), Start: -1, End: -1}
	for k, nk := 0, rng.IntN(4); k < nk; k++ {
		a.Keys = append(a.Keys, chainfx.KeyDecl{Key: keyPool[rng.IntN(len(keyPool))], Perm: state.Permissions(rng.IntN(8))})
	}
	a.Canonicalize()
	base := len(a.Bytes())
	if size > base+11 { // one put op carrying the padding (op header is 11 bytes + key)
		a.Ops = append(a.Ops, chainfx.Op{Kind: chainfx.OpPut, Val: make([]byte, size-base-11)})
	}
	return a
}

var c14Sizes = []int{0, 60, 100, 120, 127, 128, 129, 200, 500, 1000, 2000, 16383, 16384, 17000}

func genC14(rng *rand.Rand, i int, derived bool) c14Case {
	c := c14Case{ValidityWindow: 60_000, BH: "prefix"}
	var cid ids.ID
	switch rng.IntN(6) {
	case 0: // the all-zero chain id is omitted from the encoding (34 bytes of extra slack)
	default:
		copy(cid[:], seedBytes(rng, 32))
	}
	c.ChainID = cid.String()
	switch rng.IntN(5) {
	case 0:
		c.Timestamp = 0
	case 1:
		c.Timestamp, c.ValidityWindow = 0, -(1 << 40) // negative expiry (zigzag varint)
	case 2:
		c.Timestamp = int64(rng.Uint64() >> 2)
	default:
		c.Timestamp = 1_700_000_000_000 + int64(rng.IntN(1_000_000))
	}
	maxes := []uint8{1, 2, 4, 16, 16, 64, 255}
	c.MaxActions = maxes[rng.IntN(len(maxes))]
	for j := range c.Costs {
		c.Costs[j] = fmt.Sprint(rng.IntN(50))
	}
	pricePool := []uint64{0, 1, 100, 100, 1 << 20, 1 << 30}
	var prices fees.Dimensions
	for j := range prices {
		prices[j] = pricePool[rng.IntN(len(pricePool))]
	}
	c.Prices = u64s(prices)
	kinds := []string{"ed25519", "secp256r1", "bls", "spy"}
	c.Auth = kinds[rng.IntN(len(kinds))]
	c.AuthSeed = kit.Hex(seedBytes(rng, 32))
	if c.Auth == "spy" {
		c.SpyPad = []int{0, 10, 33, 34, 35, 300}[rng.IntN(6)]
	}
	if rng.IntN(2) == 0 {
		c.BH = "morpheusvm"
	}
	n := 1 + rng.IntN(int(c.MaxActions))
	if rng.IntN(3) == 0 {
		n = int(c.MaxActions)
	}
	keyPool := make([][]byte, 1+rng.IntN(4))
	for j := range keyPool {
		keyPool[j] = c12Key(rng)
	}
	big3 := false
	style := rng.IntN(3) // 0 transfers, 1 progs, 2 mixed
	var templates []c14DerivedKey
	if derived {
		style = 3 + rng.IntN(3) // 3 derived only, 4 derived + progs, 5 derived + progs + transfers
		templates = genC14DerivedTemplates(rng)
		if n == 1 && c.MaxActions > 1 && rng.IntN(4) != 0 {
			n = 2 + rng.IntN(int(c.MaxActions)-1)
		}
	}
	for j := 0; j < n; j++ {
		if style >= 3 && (style == 3 || j == 0 || rng.IntN(2) == 0) {
			size := rng.IntN(300)
			if rng.IntN(8) == 0 {
				size = c14Sizes[rng.IntN(10)] // <= 1000
			}
			a := genC14Derived(rng, uint64(i)<<16|uint64(j), size, keyPool, templates)
			c.Actions = append(c.Actions, c14Action{Kind: "derived", Bytes: kit.Hex(a.Bytes())})
			continue
		}
		if style == 0 || ((style == 2 || style == 5) && rng.IntN(2) == 0) {
			t := &actions.Transfer{Value: rng.Uint64()}
			copy(t.To[:], seedBytes(rng, codec.AddressLen))
			if rng.IntN(4) == 0 {
				copy(t.To[:], keyPool[0]) // repeated receiver
			}
			memos := []int{0, 1, 50, 80, 81, 82, 200, actions.MaxMemoSize}
			t.Memo = seedBytes(rng, memos[rng.IntN(len(memos))])
			c.Actions = append(c.Actions, c14Action{Kind: "transfer", Bytes: kit.Hex(t.Bytes())})
			continue
		}
		size := c14Sizes[rng.IntN(len(c14Sizes))]
		if size > 2000 {
			if big3 || n > 16 {
				size = 2000
			}
			big3 = true
		}
		if rng.IntN(3) == 0 {
			size = rng.IntN(2001)
		}
		a := genProgOfSize(rng, uint64(i)<<16|uint64(j), size, keyPool)
		c.Actions = append(c.Actions, c14Action{Kind: "prog", Bytes: kit.Hex(a.Bytes())})
	}
	return c
}

func TestC14(t *testing.T) {
	r := kit.Start(t, "C14", "exploration")
	r.Rule("case = rules (random chain id incl. all-zero, storage costs, max actions 1..255, expiry incl. zero / negative / 2^62 (1..10-byte varints)) x 1..max actions (morpheusvm Transfer with memos 0..256 bytes and programmable actions of 0..2000 (occasionally 16384+) encoded bytes so that 1-, 2- and 3-byte length prefixes occur, declared key sets with duplicates; plus an own stream of cases with 1..max actions of which several are create-asset/mint/account style actions whose StateKeys(actor, actionID) are derived: key = prefix || actionID, prefix || actor or prefix || actor || actionID, each with a fixed chunk suffix (0..65535) and permissions, 1..3 such declarations per action drawn from 1..3 templates per case so that many actions of one transaction declare the SAME template (distinct keys in the signed transaction for action-ID templates, one shared key for actor templates), alone or mixed with fixed-key programmable actions and Transfers) x auth factory (ed25519, secp256r1, BLS, configurable-size spy auth) x unit prices; chain.GenerateTransaction signs the transaction; judged: EstimateUnits[d] >= Transaction.Units[d] of the signed transaction for all 5 dimensions and MaxFee >= sum price*units in math/big. Non-trivial = >= 2 actions or an action of >= 128 bytes; distinct = (action count, histogram of length-prefix sizes, auth kind/prefix size, zero chain id, expiry varint size, zero fee; for derived-key cases additionally buckets of the number of derived-key actions, the derivation modes used, and the largest number of actions sharing one action-ID / one actor template).")
	r.Assume(
		"rules.SponsorStateKeysMaxChunks describes the balance handler's sponsor keys (default {1} = one balance key of one chunk, true for the prefix and the morpheusvm balance handlers used here)",
		"AuthFactory.MaxUnits is the factory's own promise about the auth it produces (true for the built-in factories)",
		"cases where EstimateUnits or the fee multiplication overflows produce no transaction and are skipped",
		"the units the transaction 'actually consumes' are Transaction.Units under the same rules (that Result.Units equals it is judged by C12)",
	)
	if rf := r.Replay(); rf != nil && len(rf.Witness) > 0 {
		var c c14Case
		if err := jsonUnmarshal(rf.Witness, &c); err == nil && len(c.Actions) > 0 {
			judgeC14(r, c)
			r.Finish(0)
			return
		}
	}
	rng := r.Rand("cases")
	n := r.N(4000, 45000)
	for i := 0; i < n; i++ {
		c := genC14(rng, i, false)
		if i == 0 { // the design-phase probe: 16 transfers with 200-byte memos, ed25519, non-zero chain id
			c = c14Case{ChainID: ids.ID{9}.String(), Timestamp: 1_700_000_000_000, ValidityWindow: 60_000, MaxActions: 16, Auth: "ed25519", AuthSeed: kit.Hex(make([]byte, 32)), BH: "morpheusvm",
				Costs: [7]string{"1", "5", "2", "20", "5", "10", "3"}, Prices: [5]string{"1", "1", "1", "1", "1"}}
			for j := 0; j < 16; j++ {
				tr := &actions.Transfer{To: codec.Address{byte(j + 1)}, Value: 1, Memo: make([]byte, 200)}
				c.Actions = append(c.Actions, c14Action{Kind: "transfer", Bytes: kit.Hex(tr.Bytes())})
			}
		}
		shape, nt := judgeC14(r, c)
		if nt {
			r.Distinct(shape)
		}
		if i < 3 {
			r.Sample(map[string]any{"shape": shape, "auth": c.Auth, "actions": len(c.Actions), "chain_id": c.ChainID})
		}
	}
	// actions whose declared keys are derived from their own action ID / the actor (own stream)
	drng := r.Rand("derived-key-cases")
	for i, nd := 0, r.N(1500, 12000); i < nd; i++ {
		c := genC14(drng, 1<<20|i, true)
		shape, nt := judgeC14(r, c)
		if nt {
			r.Distinct(shape)
		}
		if i < 2 {
			r.Sample(map[string]any{"shape": shape, "auth": c.Auth, "actions": len(c.Actions), "chain_id": c.ChainID, "kinds": c14Kinds(c)})
		}
	}
	c14Concurrent(r)
	r.Extra("min_bandwidth_slack_bytes", c14MinSlack)
	r.Finish(r.N(300, 1000))
}

// c14Concurrent: wallets estimate and sign concurrently against ONE rules object decoded from
// genesis JSON (as every node and client obtains it; decoded slices have spare capacity). Every
// estimate must still cover the units of the transaction it was made for.
func c14Concurrent(r *kit.Run) {
	base := genesis.NewDefaultRules()
	base.ChainID = ids.ID{7}
	base.SponsorStateKeysMaxChunks = []uint16{1}
	raw, err := json.Marshal(base)
	if err != nil {
		r.T.Fatal(err)
	}
	rules := &genesis.Rules{}
	if err := json.Unmarshal(raw, rules); err != nil {
		r.T.Fatal(err)
	}
	rules.ChainID = ids.ID{7}
	rf := &genesis.ImmutableRuleFactory{Rules: rules}
	bh := balance.NewPrefixBalanceHandler([]byte{0})
	workers := 8
	iters := r.N(1500, 30000)
	var wg sync.WaitGroup
	for g := 0; g < workers; g++ {
		wg.Add(1)
		go func(g int) {
			defer wg.Done()
			rng := r.Rand(fmt.Sprintf("concurrent-%d", g))
			a := chainfx.SpyAddr(500 + g)
			f := &chainfx.SpyFactory{Auth: chainfx.SpyAuth{ActorAddr: a, SponsorAddr: a, Compute: 1, Start: -1, End: -1, OK: true}}
			for i := 0; i < iters; i++ {
				// each goroutine declares keys with its own chunk sizes, so a foreign chunk list is visible
				nk := 1 + rng.IntN(4)
				act := &chainfx.ProgAction{Nonce: uint64(g)<<32 | uint64(i), Start: -1, End: -1}
				for k := 0; k < nk; k++ {
					act.Keys = append(act.Keys, chainfx.KeyDecl{Key: keys.EncodeChunks([]byte{byte(g), byte(k), byte(i)}, uint16(1+rng.IntN(1+g*40))), Perm: state.All})
				}
				act.Canonicalize()
				acts := []chain.Action{act}
				var est fees.Dimensions
				var tx *chain.Transaction
				var e1, e2 error
				r.Guard("EstimateUnits", nil, func() {
					est, e1 = chain.EstimateUnits(rules, acts, f)
					tx, e2 = chain.GenerateTransaction(rf, fees.Dimensions{1, 1, 1, 1, 1}, 1_700_000_000_000, acts, f)
				})
				r.Eval()
				if e1 != nil || e2 != nil {
					continue
				}
				units, err := tx.Units(bh, rules)
				if err != nil {
					continue
				}
				for d := 0; d < fees.FeeDimensions; d++ {
					if est[d] < units[d] {
						r.Violation("C14/estimate-below-actual/concurrent-estimates", map[string]any{"goroutine": g, "iteration": i, "estimate": est, "units": units, "dimension": d},
							"with %d wallets estimating concurrently on one rules object: dimension %d estimate %d < units %d of the transaction it was made for", workers, d, est[d], units[d])
					}
				}
				r.Count("concurrent_estimates", 1)
			}
		}(g)
	}
	wg.Wait()
}
