#!/usr/bin/env bash
# seedconfirm.sh <seeded dir>: independently confirms a seeded change in a scratch
# worktree: demo passes without the patch, fails with it, tree builds, and the
# repository's own tests of the touched packages and their main users pass.
# Writes <dir>/confirm.json.
set -u
d="$(realpath "$1")"; n="$(basename "$d")"
wt="/tmp/wt-confirm-$n-$$"
export GOFLAGS=-mod=mod GOPROXY=off GOTOOLCHAIN=auto; unset GOSUMDB
git -C /repo worktree add --detach "$wt" HEAD >/dev/null 2>&1 || exit 3
trap 'git -C /repo worktree remove --force "$wt" >/dev/null 2>&1' EXIT
cmd=$(python3 -c "import json;print(json.load(open('$d/meta.json'))['demo_cmd'])")
sub=$(echo "$cmd" | grep -oE 'SEED_OUT/[0-9]+' | head -1); [ -z "$sub" ] && sub="SEED_OUT/1"
mkdir -p "$wt/$sub"; cp "$d/demo_test.go" "$wt/$sub/demo_test.go" 2>/dev/null; cp "$d"/demo* "$wt/$sub/" 2>/dev/null
if ! echo "$cmd" | grep -q 'cp '; then
  # the command does not place the demo itself: put it into the package directory it tests
  pkgdir=$(echo "$cmd" | grep -oE '\./[A-Za-z0-9_./-]+' | tail -1 | sed 's#/\.\.\.$##')
  case "$cmd" in *"cd examples/morpheusvm"*) pkgdir="examples/morpheusvm/$pkgdir";; esac
  cp "$d/demo_test.go" "$wt/$pkgdir/zz_seed_demo_test.go"
fi
( cd "$wt" && timeout 900 bash -c "$cmd" ) >"$d/confirm.without.log" 2>&1; rc_without=$?
grep -q 'no tests to run' "$d/confirm.without.log" && rc_without=99
( cd "$wt" && git apply "$d/patch.diff" ) || { echo "{\"applies\": false}" > "$d/confirm.json"; exit 1; }
( cd "$wt" && go build ./... ) >"$d/confirm.build.log" 2>&1; rc_build=$?
( cd "$wt" && timeout 900 bash -c "$cmd" ) >"$d/confirm.with.log" 2>&1; rc_with=$?
# remove demo files before running the repository's own tests
( cd "$wt" && git status --porcelain | awk '$1=="??"{print $2}' | grep -v '^SEED_OUT' | xargs -r rm -rf )
pk=$(cd "$wt" && git diff --name-only | xargs -n1 dirname | sort -u | sed 's#^#./#')
root_pk=""; morph_pk=""
for p in $pk; do case "$p" in ./examples/morpheusvm/*) morph_pk="$morph_pk ./${p#./examples/morpheusvm/}";; *) root_pk="$root_pk $p";; esac; done
extra="./chain/... ./state/... ./snow/..."
case "$pk" in *x/*|*internal/chain*) extra="$extra ./x/fdsmr/... ./x/dsmr/...";; esac
( cd "$wt" && go test -vet=off -count=1 -timeout 20m -skip 'TestGetChunkSignature_PersistAttestedBlocks' $root_pk $extra ) >"$d/confirm.tests.log" 2>&1; rc_tests=$?
# vm is flaky under load: up to 3 attempts
rc_vm=1; for i in 1 2 3; do ( cd "$wt" && go test -vet=off -count=1 -timeout 20m ./vm/... ) >"$d/confirm.vm.log" 2>&1 && { rc_vm=0; break; }; done
rc_m=0; if [ -n "$morph_pk" ]; then ( cd "$wt/examples/morpheusvm" && go test -vet=off -count=1 $morph_pk ) >>"$d/confirm.tests.log" 2>&1; rc_m=$?; fi
python3 - <<PY
import json
json.dump({"applies": True, "builds": $rc_build==0, "demo_passes_without_patch": $rc_without==0, "demo_fails_with_patch": $rc_with!=0,
 "repo_tests_pass_with_patch": $rc_tests==0 and $rc_m==0, "vm_tests_pass_with_patch(<=3 attempts)": $rc_vm==0,
 "tests_run": "touched packages:$root_pk$morph_pk; $extra ./vm/...", "demo_cmd": """$cmd"""}, open("$d/confirm.json","w"), indent=1)
PY
cat "$d/confirm.json"
