#!/usr/bin/env bash
# seedcollect.sh Cxx <worktree> <firstN> "<checks>" : copies SEED_OUT/{1,2} of a seed worktree to seeded/Cxx-N, N+1, adds MAP rows, removes the worktree
set -e
cd /verif
c=$1; wt=$2; n=$3; checks=$4
for i in 1 2; do
  [ -d "$wt/SEED_OUT/$i" ] || continue
  d="seeded/$c-$((n+i-1))"
  mkdir -p "$d"; cp "$wt/SEED_OUT/$i/"* "$d/"
  grep -q "^$c-$((n+i-1))	" seeded/MAP.tsv || printf '%s\t%s\n' "$c-$((n+i-1))" "$checks" >> seeded/MAP.tsv
  echo "collected $d: $(ls $d | tr '\n' ' ')"
done
git -C /repo worktree remove --force "$wt" && git -C /repo worktree prune
