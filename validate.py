#!/opt/veriftools/pyvenv/bin/python
import json, jsonschema, glob, sys
ok = True
jsonschema.validate(json.load(open('/verif/MANIFEST.json')), json.load(open('/root/.vp/MANIFEST.schema.json')))
es = json.load(open('/root/.vp/EVIDENCE.schema.json'))
m = json.load(open('/verif/MANIFEST.json'))
for c in m['checks']:
    try:
        jsonschema.validate(json.load(open(c['evidence_file'])), es)
    except Exception as e:
        ok = False; print('BAD', c['evidence_file'], str(e)[:200])
print('valid' if ok else 'INVALID'); sys.exit(0 if ok else 1)
