#!/usr/bin/env python3
"""Prints the prompt for a seeding sub-agent: seed_prompt.py Cxx  (property text only, nothing from /verif)."""
import json, sys
pid = sys.argv[1]
p = [json.loads(l) for l in open('/verif/properties.jsonl') if json.loads(l)['id'] == pid][0]
d = f"/tmp/seed-{pid}"
print(f"""You are helping to test a verification effort for the Go project ava-labs/hypersdk. Your job is to play the role of a developer who introduces a subtle bug.

Work ONLY inside your own scratch git worktree {d} (a checkout of ava-labs/hypersdk at a pinned commit). Do NOT read, list or modify anything under /verif or /repo, and do not touch other directories under /tmp. No network is available. For every shell call use:
  export GOFLAGS=-mod=mod GOPROXY=off GOTOOLCHAIN=auto; unset GOSUMDB
(GOTOOLCHAIN=local and GOSUMDB=off break the build here.) The packages under internal/verifhook and the `verifhook.Point(...)` calls are inert instrumentation; ignore them and do not change them.

PROPERTY ({pid}) — "{p['title']}"
Statement: {p['statement']}
Quantified over: {p['quantifier']['text']}
Code it is anchored in: {', '.join(p['anchors']['files'])}

TASK: produce TWO different, independent changes (mutants) to the NON-TEST source files of hypersdk, each of which breaks the property above while
 (a) everything still compiles (`go build ./...`), and
 (b) the existing unit tests still pass unedited — run `go test -vet=off -count=1` on every package you touched and on the packages that use it most directly (for example ./chain/... ./vm/... ./snow/... ./internal/... as applicable; x/ and examples/ when you touch them), and
 (c) the bug is REALISTIC (the kind of slip a maintainer could make: an off-by-one or inverted comparison, a dropped or misplaced lock/unlock, two statements reordered, a forgotten case or early return, a stale cached value, a wrong variable) and needs something SPECIFIC to manifest — a particular interleaving, a crash/fault at a particular point, a multi-step sequence of operations, an unusual input/boundary value, or two cooperating sites that each look fine alone. Do NOT produce a change that ordinary use would expose at once (e.g. everything fails) and do not just delete a whole feature. Keep each change small (a few lines).
For each mutant also write a DEMONSTRATION: a Go test (a new file `zz_seed_demo_test.go` in a suitable package of the worktree, or a small program) that FAILS (or hangs / panics / reports the wrong value) with the change applied and PASSES on the unchanged code. Verify both directions yourself (switch states with `git diff > /tmp/seed-{pid}/p.diff; git checkout -- .` and `git apply /tmp/seed-{pid}/p.diff`; NEVER use `git stash` — the stash is shared with other worktrees of this repository; make sure the demo file is not part of the patch).

DELIVERABLES, for mutant N in {{1,2}}, in directory {d}/SEED_OUT/N/ :
  patch.diff   — `git diff` of the source change only (no test/demo files), relative to the worktree root, applicable with `git apply`
  demo_test.go — the demonstration test (say in a comment at the top which package directory it must be placed in and the `go test -run` command)
  meta.json    — {{"property": "{pid}", "what_breaks": "...", "needs_to_manifest": "...", "packages_tests_run": ["..."], "demo_cmd": "...", "demo_fails_with_patch": true, "demo_passes_without_patch": true}}
At the end leave the worktree's tracked files UNCHANGED (git checkout -- . ; remove untracked demo files outside SEED_OUT). If you can only find one good mutant, deliver one and say why.
Final message: for each mutant 3–6 lines: what the change is, why existing tests do not notice, what is needed for it to manifest, and the demo command with the observed outputs (with / without the patch).""")
