#!/usr/bin/env python3
"""Round-2 seeding prompt: same as seed_prompt.py but lists the ideas already used (to be avoided) and asks for harder mutants."""
import json, sys, glob, subprocess
pid = sys.argv[1]
base = subprocess.check_output(['python3', '/verif/notes/seed_prompt.py', pid]).decode()
base = base.replace(f"/tmp/seed-{pid}", f"/tmp/seed3-{pid}")
used = []
for d in sorted(glob.glob(f'/verif/seeded/{pid}-*')):
    try: used.append(json.load(open(d + '/meta.json'))['what_breaks'][:260])
    except Exception: pass
extra = "\n\nROUND 2 — IMPORTANT ADDITIONAL REQUIREMENTS:\n- The following changes were already produced by someone else; do NOT repeat them or trivial variations of them:\n" + "\n".join(f"  * {u}" for u in used) + \
"\n- Aim for HARDER-to-notice changes than those: prefer ones that need a particular thread interleaving, a crash/fault at a particular point, a particular multi-step history, a boundary value nobody would try, or two cooperating edits in different functions/files that each look fine alone. Look at ALL the anchored files (and their callers), not only the most obvious function.\n- Everything else (deliverables, verification in both directions, no git stash, leave the worktree clean) is as described above.\n"
print(base + extra)
