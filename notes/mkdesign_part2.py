#!/usr/bin/env python3
"""Regenerates Part II tables of DESIGN.md (findings + seeded changes) between markers."""
import json, re, os, glob
kf = json.load(open('/verif/known_findings.json'))
rows = []
for e in kf:
    st = e['status']
    what = e['what']
    what = re.sub(r'^fixed: property=\S+ \S+ ', '', what)
    rows.append(f"| {e['property']} | `{e['key']}` | {st}{(' ' + e['commit']) if e.get('commit') else ''} | {what} |")
find_tbl = "| Property | violation key (witness class) | status | what failed |\n|---|---|---|---|\n" + "\n".join(rows)
# seeded
res = {}
if os.path.exists('/verif/seeded/results.log'):
    for l in open('/verif/seeded/results.log'):
        m = re.match(r'SEEDTEST (\S+)/patch.diff (\S+) (\S+) exit=(\d+) ?(.*)', l)
        if m:
            res.setdefault(m.group(1), []).append((m.group(2), m.group(4), m.group(5).strip()))
srows = []
for d in sorted(glob.glob('/verif/seeded/C*-*')):
    n = os.path.basename(d)
    try: meta = json.load(open(d + '/meta.json'))
    except Exception: continue
    what = meta.get('what_breaks', '')[:230].replace('|', '/').replace('\n', ' ')
    det = '; '.join(f"{c}: {'DETECTED (' + k.replace('key=','') + ')' if x == '1' else 'silent' if x=='0' else 'exit ' + x}" for c, x, k in res.get(n, [])) or 'not yet run'
    srows.append(f"| {n} | {what} | {det} |")
seed_tbl = "| seeded change | what it breaks | checks run against it (quick tier) |\n|---|---|---|\n" + "\n".join(srows)
s = open('/verif/DESIGN.md').read()
def sub(tag, body):
    global s
    a, b = f"<!-- {tag}:begin -->", f"<!-- {tag}:end -->"
    if a in s:
        s = s[:s.index(a) + len(a)] + "\n" + body + "\n" + s[s.index(b):]
sub('findings', find_tbl); sub('seeded', seed_tbl)
open('/verif/DESIGN.md', 'w').write(s)
