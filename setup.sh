#!/usr/bin/env bash
# Offline setup: warm the Go build caches (plain and -race) for the harness so
# that each check only pays for what changed in /repo.
set -u
VERIF="$(cd "$(dirname "${BASH_SOURCE[0]}")" && pwd)"
export GOFLAGS=-mod=mod GOPROXY=off GOTOOLCHAIN=auto
unset GOSUMDB
mkdir -p "$VERIF/.work/bin" "$VERIF/.work/run" "$VERIF/evidence" "$VERIF/replays"
cd "$VERIF/harness" || exit 1
go version || exit 1
go build -tags verif ./kit/... || exit 1
pkgs=$(go list -tags verif ./... 2>/dev/null | grep -v '/overlay/')
go test -tags verif -vet=off -count=1 -run '^$' $pkgs >/dev/null 2>"$VERIF/.work/setup.err" || { cat "$VERIF/.work/setup.err"; exit 1; }
racepk=$(awk -F'|' '$3==1 || $4==1 {print $2}' "$VERIF/checks.tbl" | grep -v '^overlay:' | sort -u | sed 's#^#./#')
if [ -n "$racepk" ]; then
  go test -tags verif -race -vet=off -count=1 -run '^$' $racepk >/dev/null 2>"$VERIF/.work/setup.err" || { cat "$VERIF/.work/setup.err"; exit 1; }
fi
echo "setup ok"
