#!/usr/bin/env python3
"""Regenerates MANIFEST.json from manifest_src.json (per-property texts) and checks.tbl."""
import json, subprocess, sys
props = [json.loads(l) for l in open('/verif/properties.jsonl')]
import glob, os
src = json.load(open('/verif/manifest.d/_global.json'))
src['checks'] = {os.path.basename(f)[:-5]: json.load(open(f)) for f in glob.glob('/verif/manifest.d/C*.json')}
src['na'] = json.load(open('/verif/manifest.d/_na.json')) if os.path.exists('/verif/manifest.d/_na.json') else {}
def race_note(f, technique):
    """states in the technique field under which tiers the Go race detector watches the run (from checks.tbl)"""
    q, t = f[2] == '1', f[3] == '1'
    if not (q or t):
        return ''
    tiers = 'quick and thorough tiers' if q and t else 'quick tier' if q else 'thorough tier'
    return f"; run under the Go race detector ({tiers}), reports in {f[6].strip()} count as violations"
tbl = {}
for l in open('/verif/checks.tbl'):
    l = l.strip()
    if l and not l.startswith('#'):
        f = l.split('|'); tbl[f[0]] = f
hook_commits = src['hook_commits']
checks, na = [], []
for p in props:
    pid = p['id']
    e = src['checks'].get(pid)
    if e and pid in tbl:
        checks.append({
            "property_id": pid,
            "quick_cmd": f"./check {pid} quick",
            "thorough_cmd": f"./check {pid} thorough",
            "evidence_file": f"/verif/evidence/{pid}.json",
            "replay_cmd_template": f"./check {pid} --replay {{path}}",
            "engine": "harness",
            "level_claimed": {"category": e.get("category", "exploration"), "text": e["text"], "design_ref": f"DESIGN.md §3 {pid}"},
            "level_note": e["note"],
            "technique": e["technique"] + race_note(tbl[pid], e["technique"]),
        })
    else:
        na.append({"property_id": pid, "reason": src.get('na', {}).get(pid, "no check registered yet: monitor still being built in this session (runtime monitoring applies; see DESIGN.md §3)")})
m = {
    "version": 1,
    "setup_cmd": "./setup.sh",
    "hooks": {
        "guard": "verif",
        "enable": "go test -tags verif (the ./check dispatcher builds every harness test binary with -tags verif against /repo's working tree)",
        "baseline_off_cmd": "./baseline_off.sh",
        "source_commits": hook_commits,
        "add_only": True,
    },
    "engines": [{"name": "harness", "path": "/verif/harness", "serves_properties": [c["property_id"] for c in checks],
                 "kind_free_text": "Go test binaries (module github.com/ava-labs/hypersdk/zzverif, replace => /repo) that drive the real hypersdk code under generated/hostile workloads while reference-model monitors, trace checkers, porcupine and the Go race detector judge what was observed"}],
    "checks": checks,
    "notes": src.get("notes", ""),
    "not_applicable": na,
}
json.dump(m, open('/verif/MANIFEST.json', 'w'), indent=1)
print(f"{len(checks)} checks, {len(na)} not_applicable")
